# stages per property; executed by ./check.  S(name, flavour, bin, args, env, tiers, kind, timeout)
STAGES = {
    "C01": [S("rel", "rel", "c01")],
    "C05": [S("rel", "rel", "c05")],
    "C07": [S("rel", "rel", "c07")],
    "C08": [S("rel", "rel", "c08")],
    "C09": [S("rel", "rel", "c09"),
            S("conc3", "conc", "c09", env={"RAYON_NUM_THREADS": 3, "VERIF_SCALE": 0.5}),
            S("conc16", "conc", "c09", env={"RAYON_NUM_THREADS": 16, "VERIF_SCALE": 0.5})],
    "C10": [S("rel", "rel", "c10"), S("conc", "conc", "c10", env={"RAYON_NUM_THREADS": 6, "VERIF_SCALE": 0.5})],
    "C11": [S("rel", "rel", "c11")],
    "C12": [S("rel", "rel", "c12")],
    "C13": [S("rel", "rel", "c13")],
    "C15": [S("rel", "rel", "c15")],
    "C16": [S("rel", "rel", "c16")],
    "C18": [S("rel", "rel", "c18")],
    "C19": [S("rel", "rel", "c19")],
    "C20": [S("rel", "rel", "c20"), S("conc", "conc", "c20", env={"RAYON_NUM_THREADS": 5, "VERIF_SCALE": 0.5})],
}
