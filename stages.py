# stages per property; executed by ./check.  S(name, flavour, bin, args, env, tiers, kind, timeout)
STAGES = {
    "C07": [S("rel", "rel", "c07")],
}
