use winter_math::{fft, fields::f64::BaseElement as B, FieldElement, StarkField, polynom, get_power_series};
use winter_crypto::{hashers::Blake3_256, MerkleTree, Hasher};
fn main() {
    let n = 1024usize;
    let mut p: Vec<B> = (0..n as u64).map(|i| B::new(i * i + 1)).collect();
    let orig = p.clone();
    let tw = fft::get_twiddles::<B>(n);
    fft::evaluate_poly(&mut p, &tw);
    let g = B::get_root_of_unity(10);
    let xs = get_power_series(g, 4);
    for i in 0..4 { assert_eq!(p[i], polynom::eval(&orig, xs[i])); }
    let leaves: Vec<_> = (0..2048u32).map(|i| Blake3_256::<B>::hash(&i.to_le_bytes())).collect();
    let t = MerkleTree::<Blake3_256<B>>::new(leaves).unwrap();
    println!("ok {:?}", t.root());
}
