use winter_crypto::{hashers::Blake3_256, DefaultRandomCoin, RandomCoin};
use winter_fri::{folding, DefaultProverChannel, DefaultVerifierChannel, FriOptions, FriProof, FriProver, FriVerifier};
use winter_math::{fields::f128::BaseElement as B, polynom, FieldElement, StarkField};
use winter_utils::{Deserializable, Serializable, transpose_slice};

type H = Blake3_256<B>;
type Coin = DefaultRandomCoin<H>;

pub fn run() {
    let n = 1024usize; let blowup = 8; let fold = 4; let rem_max = 31;
    let opts = FriOptions::new(blowup, fold, rem_max);
    // a "random" function: far from low degree
    let mut x = B::new(123456789);
    let evals: Vec<B> = (0..n).map(|_| { x = x * x + B::new(7); x }).collect();
    let mut ch = DefaultProverChannel::<B, H, Coin>::new(n, 10);
    let mut prover = FriProver::<B, B, _, H>::new(opts.clone());
    prover.build_layers(&mut ch, evals.clone());
    let positions = ch.draw_query_positions(0);
    let commitments = ch.layer_commitments().to_vec();
    let proof = prover.build_proof(&positions);
    println!("layers {} commitments {}", proof.num_layers(), commitments.len());
    let verify = |proof: FriProof| {
        let mut vch = DefaultVerifierChannel::<B, H>::new(proof, commitments.clone(), n, fold).unwrap();
        let mut coin = Coin::new(&[]);
        let v = FriVerifier::new(&mut vch, &mut coin, opts.clone(), n / blowup - 1).unwrap();
        let qe: Vec<B> = positions.iter().map(|&p| evals[p]).collect();
        v.verify(&mut vch, &qe, &positions)
    };
    println!("honest-on-random-function: {:?}", verify(proof.clone()));
    // adaptive adversary: recompute folded layer and interpolate remainder through queried points
    let mut coin = Coin::new(&[]);
    coin.reseed(commitments[0]);
    let alpha: B = coin.draw().unwrap();
    let t = transpose_slice::<B, 4>(&evals);
    let folded = folding::apply_drp(&t, B::GENERATOR, alpha);
    let fpos = folding::fold_positions(&positions, n, fold);
    let g = B::get_root_of_unity((n as u32).ilog2()).exp(4u128);
    let xs: Vec<B> = fpos.iter().map(|&p| B::GENERATOR * g.exp(p as u128)).collect();
    let ys: Vec<B> = fpos.iter().map(|&p| folded[p]).collect();
    let mut rem = polynom::interpolate(&xs, &ys, false);
    rem.resize(32, B::ZERO);
    let mut bytes = proof.to_bytes();
    let l = bytes.len();
    let rem_bytes: Vec<u8> = rem.iter().flat_map(|e| e.to_bytes()).collect();
    assert_eq!(rem_bytes.len(), 512);
    bytes[l - 1 - 512..l - 1].copy_from_slice(&rem_bytes);
    let forged = FriProof::read_from_bytes(&bytes).unwrap();
    println!("forged (remainder chosen after queries, {} distinct folded positions): {:?}", fpos.len(), verify(forged));
}
