use winter_crypto::{hashers::{Rp64_256, RpJive64_256}, ElementHasher, Hasher};
use winter_math::{fields::f64::BaseElement as B, FieldElement, StarkField};
const P: u128 = 0xFFFFFFFF00000001;
fn mm(a: u128, b: u128) -> u128 { a * b % P }
fn pw(mut a: u128, mut e: u128) -> u128 { let mut r = 1; while e > 0 { if e & 1 == 1 { r = mm(r, a); } a = mm(a, a); e >>= 1; } r }
fn inv_mod(a: i128, m: i128) -> i128 { let (mut t, mut nt, mut r, mut nr) = (0i128, 1i128, m, a); while nr != 0 { let q = r / nr; (t, nt) = (nt, t - q * nt); (r, nr) = (nr, r - q * nr); } ((t % m) + m) % m }
fn ref_perm(st: &mut [u128; 12]) {
    let inv_alpha = inv_mod(7, (P - 1) as i128) as u128;
    let mds: Vec<Vec<u128>> = Rp64_256::MDS.iter().map(|r| r.iter().map(|x| x.as_int() as u128).collect()).collect();
    for round in 0..7 {
        for x in st.iter_mut() { *x = pw(*x, 7); }
        let old = *st; for i in 0..12 { st[i] = (0..12).fold(0u128, |a, j| (a + mm(mds[i][j], old[j])) % P); }
        for i in 0..12 { st[i] = (st[i] + Rp64_256::ARK1[round][i].as_int() as u128) % P; }
        for x in st.iter_mut() { *x = pw(*x, inv_alpha); }
        let old = *st; for i in 0..12 { st[i] = (0..12).fold(0u128, |a, j| (a + mm(mds[i][j], old[j])) % P); }
        for i in 0..12 { st[i] = (st[i] + Rp64_256::ARK2[round][i].as_int() as u128) % P; }
    }
}
pub fn run() {
    let edge: [u64; 9] = [0, 1, 0xFFFFFFFF, 0x100000000, (P - 1) as u64, (P - 2) as u64, 0x7FFFFFFF80000000, 0x8000000000000000, 0xFFFFFFFE00000001];
    let mut s = 0x9E3779B97F4A7C15u64; let mut nx = || { s ^= s << 13; s ^= s >> 7; s ^= s << 17; s };
    let mut bad = 0; let mut noncanon = 0; let mut n = 0;
    for t in 0..200000u32 {
        let mut vals = [0u64; 12];
        for i in 0..12 { vals[i] = if t < 50000 { edge[(nx() % 9) as usize] } else { nx() % P as u64 }; }
        let mut st: [B; 12] = core::array::from_fn(|i| B::new(vals[i]));
        let mut rs: [u128; 12] = core::array::from_fn(|i| vals[i] as u128 % P);
        Rp64_256::apply_permutation(&mut st); ref_perm(&mut rs); n += 1;
        if (0..12).any(|i| st[i].as_int() as u128 != rs[i]) { bad += 1; if bad < 5 { println!("perm mismatch {:?}", vals); } }
        if st.iter().any(|x| x.inner() >= P as u64) { noncanon += 1; if noncanon < 5 { println!("non-canonical output limb for state {:?}", vals); } }
    }
    println!("rp64_256 permutation: {n} states, mismatch {bad}, non-canonical outputs {noncanon}");
    // hash_elements vs merge consistency and canonical digests
    let mut nc = 0;
    for _ in 0..200000 { let e: Vec<B> = (0..8).map(|_| B::new(nx())).collect(); let d = Rp64_256::hash_elements(&e); if d.as_elements().iter().any(|x| x.inner() >= P as u64) { nc += 1; } }
    println!("hash_elements digests with non-canonical limb: {nc} / 200000");
    let _ = RpJive64_256::hash(&[1, 2, 3]);
}
