use winter_crypto::{hashers::*, DefaultRandomCoin, ElementHasher, RandomCoin};
use winter_fri::{DefaultProverChannel, DefaultVerifierChannel, FriOptions, FriProof, FriProver, FriVerifier};
use winter_math::{fft, fields::{f128, f62, f64 as g64, CubeExtension, QuadExtension}, FieldElement, StarkField};
use winter_utils::{Deserializable, Serializable};

fn one<B: StarkField, E: FieldElement<BaseField = B>, H: ElementHasher<BaseField = B>>(
    log_n: u32, blowup: usize, fold: usize, rem_max: usize, nq: usize, deg_slack: usize, seed: u64,
) -> Result<(), String> {
    let n = 1usize << log_n;
    let opts = FriOptions::new(blowup, fold, rem_max);
    let max_deg = n / blowup - 1;
    // poly of degree max_deg - deg_slack
    let ncoef = max_deg + 1 - deg_slack;
    let mut s = seed;
    let mut next = || { s = s.wrapping_mul(6364136223846793005).wrapping_add(1442695040888963407); s };
    let mut coeffs: Vec<E> = (0..n / blowup).map(|i| if i < ncoef { E::from((next() >> 33) as u32) * E::from((next() >> 33) as u32) + E::ONE } else { E::ZERO }).collect();
    let tw = fft::get_twiddles::<B>(coeffs.len());
    let evals = fft::evaluate_poly_with_offset(&coeffs, &tw, B::GENERATOR, blowup);
    coeffs.clear();
    let r = std::panic::catch_unwind(std::panic::AssertUnwindSafe(|| {
        let mut ch = DefaultProverChannel::<E, H, DefaultRandomCoin<H>>::new(n, nq);
        let mut prover = FriProver::<B, E, _, H>::new(opts.clone());
        prover.build_layers(&mut ch, evals.clone());
        let positions = ch.draw_query_positions(0);
        let commitments = ch.layer_commitments().to_vec();
        let proof = prover.build_proof(&positions);
        let proof = FriProof::read_from_bytes(&proof.to_bytes()).map_err(|e| format!("deser {e}"))?;
        let mut vch = DefaultVerifierChannel::<E, H>::new(proof, commitments, n, fold).map_err(|e| format!("chan {e}"))?;
        let mut coin = DefaultRandomCoin::<H>::new(&[]);
        let v = FriVerifier::new(&mut vch, &mut coin, opts.clone(), max_deg).map_err(|e| format!("new {e}"))?;
        let qe: Vec<E> = positions.iter().map(|&p| evals[p]).collect();
        v.verify(&mut vch, &qe, &positions).map_err(|e| format!("verify {e}"))
    }));
    match r { Ok(x) => x, Err(_) => Err("PANIC".into()) }
}

pub fn run() {
    std::panic::set_hook(Box::new(|i| { eprintln!("  panic: {}", i); }));
    let mut fails = std::collections::BTreeMap::<String, Vec<String>>::new();
    let mut total = 0;
    for log_n in 3..=11u32 { for &blowup in &[2usize, 4, 8, 16, 32, 64, 128] { for &fold in &[2usize, 4, 8, 16] { for &rem in &[0usize, 1, 3, 7, 15, 31, 63, 127, 255] { for &nq in &[1usize, 5, 40] {
        let n = 1usize << log_n;
        if n / blowup < 2 || nq >= n { continue; }
        if n / blowup == 0 { continue; }
        for slack in [0usize, (n / blowup).saturating_sub(1)] {
            if slack > 0 && slack == 0 { continue; }
            let cfg = format!("n=2^{log_n} bl={blowup} f={fold} rem={rem} q={nq} slack={slack}");
            total += 3;
            for (name, r) in [
                ("f128", one::<f128::BaseElement, f128::BaseElement, Blake3_256<f128::BaseElement>>(log_n, blowup, fold, rem, nq, slack, 7)),
                ("f64c", one::<g64::BaseElement, CubeExtension<g64::BaseElement>, Rp64_256>(log_n, blowup, fold, rem, nq, slack, 9)),
                ("f62q", one::<f62::BaseElement, QuadExtension<f62::BaseElement>, Rp62_248>(log_n, blowup, fold, rem, nq, slack, 11)),
            ] { if let Err(e) = r { fails.entry(e).or_default().push(format!("{name} {cfg}")); } }
        }
    }}}}}
    println!("total {total}");
    for (k, v) in fails { println!("FAIL [{k}] x{}", v.len()); if std::env::var("ALL").is_ok() { for x in v.iter().filter(|x| x.starts_with("f128") && x.contains("q=5 ")) { println!("   {x}"); } } }
}
