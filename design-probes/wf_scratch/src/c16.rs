use winter_air::{Assertion, ConstraintDivisor};
use winter_math::{fields::{f128, f62, f64 as g64}, FieldElement, StarkField};
use std::collections::BTreeSet;

fn steps<B: StarkField>(a: &Assertion<B>, n: usize) -> BTreeSet<usize> { let mut s = BTreeSet::new(); a.apply(n, |st, _| { s.insert(st); }); s }

fn all_assertions<B: StarkField>(n: usize) -> Vec<Assertion<B>> {
    let mut v = vec![];
    for s in 0..n { v.push(Assertion::single(0, s, B::from(s as u32 + 1))); }
    let mut stride = 2; while stride <= n { for f in 0..stride { v.push(Assertion::periodic(0, f, stride, B::from(7u32)));
        let cnt = n / stride; if cnt > 1 { v.push(Assertion::sequence(0, f, stride, (0..cnt).map(|i| B::from((i * 3 + f) as u32 + 1)).collect())); } } stride *= 2; }
    v
}

fn run_field<B: StarkField>(name: &str) {
    let mut bad = 0usize; let mut checked = 0usize;
    for log_n in 3..=7u32 { let n = 1usize << log_n;
        let g = B::get_root_of_unity(log_n);
        let dom: Vec<B> = (0..n).map(|i| g.exp((i as u64).into())).collect();
        // transition divisors
        for e in 1..=n / 2 + 1 {
            let d = ConstraintDivisor::<B>::from_transition(n, e);
            for (s, &x) in dom.iter().enumerate() {
                let num = d.numerator().iter().fold(B::ONE, |acc, (deg, c)| acc * (x.exp((*deg as u64).into()) - *c));
                let ex = d.evaluate_exemptions_at(x);
                let vanishes = num == B::ZERO && ex != B::ZERO; let should = s < n - e; checked += 1;
                if vanishes != should { bad += 1; if bad < 10 { println!("{name} transition n={n} e={e} step={s} vanishes={vanishes} should={should}"); } }
            }
            if d.degree() != n - e { bad += 1; println!("{name} degree n={n} e={e}"); }
        }
        let asserts = all_assertions::<B>(n);
        for a in &asserts {
            let st = steps(a, n);
            let d = ConstraintDivisor::from_assertion(a, n);
            for (s, &x) in dom.iter().enumerate() { let z = d.evaluate_at(x) == B::ZERO; checked += 1; if z != st.contains(&s) { bad += 1; if bad < 10 { println!("{name} assertion {a} n={n} step={s} zero={z}"); } } }
            if d.degree() != st.len() { bad += 1; println!("{name} assertion degree {a}"); }
        }
        // overlaps
        for a in &asserts { let sa = steps(a, n); for b in &asserts { let sb = steps(b, n); let exp = sa.intersection(&sb).next().is_some(); checked += 1; if a.overlaps_with(b) != exp { bad += 1; if bad < 20 { println!("{name} overlap n={n} {a} vs {b}: got {} exp {exp}", a.overlaps_with(b)); } } } }
    }
    println!("{name}: checked {checked} bad {bad}");
}
pub fn run() { run_field::<f128::BaseElement>("f128"); run_field::<g64::BaseElement>("f64"); run_field::<f62::BaseElement>("f62"); }
