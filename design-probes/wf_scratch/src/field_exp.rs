use winter_math::{fields::{f128, f62, f64 as g64, CubeExtension, QuadExtension}, FieldElement, StarkField, ExtensibleField};

fn mulmod128(a: u128, b: u128, m: u128) -> u128 {
    // double-and-add
    let (mut r, mut a, mut b) = (0u128, a % m, b);
    let addmod = |x: u128, y: u128| { let (s, c) = x.overflowing_add(y); if c || s >= m { s.wrapping_sub(m) } else { s } };
    while b > 0 { if b & 1 == 1 { r = addmod(r, a); } a = addmod(a, a); b >>= 1; }
    r
}
fn powmod(mut a: u128, mut e: u128, m: u128) -> u128 { let mut r = 1u128; while e > 0 { if e & 1 == 1 { r = mulmod128(r, a, m); } a = mulmod128(a, a, m); e >>= 1; } r }

trait Small: StarkField<PositiveInteger = u64> { fn mk(v: u64) -> Self; }
impl Small for f62::BaseElement { fn mk(v: u64) -> Self { Self::new(v) } }
impl Small for g64::BaseElement { fn mk(v: u64) -> Self { Self::new(v) } }

fn edge_vals(p: u128) -> Vec<u128> {
    let mut v = vec![0, 1, 2, 3, p - 1, p - 2, p - 3, (p - 1) / 2, (p + 1) / 2, (1 << 32) - 1, 1 << 32, (1 << 32) + 1, 1 << 31, (1u128 << 62) % p, (1u128 << 63) % p, ((1u128 << 64) - (1 << 32)) % p, ((1u128<<64) - (1<<32) - 1) % p, 0xFFFFFFFF % p, 0xFFFFFFFF00000000 % p, 0x7FFFFFFFC0000000 % p];
    let mut s = 0x9E3779B97F4A7C15u128;
    for _ in 0..40 { s = s.wrapping_mul(6364136223846793005).wrapping_add(1442695040888963407); v.push(((s >> 3) ^ (s << 61)) % p); }
    v.sort(); v.dedup(); v
}

fn small<F: Small>(name: &str) {
    let p = F::MODULUS as u128;
    let vals = edge_vals(p);
    let bad = std::cell::Cell::new(0usize); let mut n = 0usize;
    let report = |what: &str, a: u128, b: u128, got: u128, exp: u128| { if got != exp { bad.set(bad.get() + 1); if bad.get() < 15 { println!("  {name} {what}({a},{b}) got {got} exp {exp}"); } } };
    for &a in &vals { for &b in &vals {
        let (x, y) = (F::mk(a as u64), F::mk(b as u64)); n += 1;
        report("add", a, b, (x + y).as_int() as u128, (a + b) % p);
        report("sub", a, b, (x - y).as_int() as u128, (a + p - b) % p);
        report("mul", a, b, (x * y).as_int() as u128, mulmod128(a, b, p));
        if b != 0 { report("div", a, b, (x / y).as_int() as u128, mulmod128(a, powmod(b, p - 2, p), p)); }
        // representation: eq consistent with as_int after op chains
        let z1 = (x + y) - y; let z2 = x;
        if (z1 == z2) != (z1.as_int() == z2.as_int()) { bad.set(bad.get()+1); println!("  {name} eq-inconsistency ({a},{b})"); }
        let z3 = x * y + (F::ZERO - x * y);
        if !(z3 == F::ZERO) || z3.as_int() != 0 { bad.set(bad.get()+1); println!("  {name} zero-repr ({a},{b})"); }
        report("exp", a, b, x.exp(b as u64).as_int() as u128, powmod(a, b, p));
    }
        let x = F::mk(a as u64);
        report("neg", a, 0, (-x).as_int() as u128, (p - a) % p);
        report("double", a, 0, x.double().as_int() as u128, (a + a) % p);
        report("square", a, 0, x.square().as_int() as u128, mulmod128(a, a, p));
        report("inv", a, 0, x.inv().as_int() as u128, if a == 0 { 0 } else { powmod(a, p - 2, p) });
    }
    // constants
    let g = F::GENERATOR.as_int() as u128; let r = F::TWO_ADIC_ROOT_OF_UNITY.as_int() as u128; let k = F::TWO_ADICITY;
    println!("{name}: pairs {n} bad {}; root^(2^k)==1: {} root^(2^(k-1))!=1: {} ; 2^k | p-1: {}; g^((p-1)/2) = {}", bad.get(), powmod(r, 1 << k, p) == 1, powmod(r, 1 << (k - 1), p) != 1, (p - 1) % (1u128 << k) == 0, powmod(g, (p - 1) / 2, p) == p - 1);
}

fn big() {
    type F = f128::BaseElement; let p = F::MODULUS;
    let mut vals = vec![0u128, 1, 2, p - 1, p - 2, (p - 1) / 2, (p + 1) / 2, 1 << 64, (1 << 64) - 1, (1 << 64) + 1, 1 << 127, (1u128 << 127) - 1, u64::MAX as u128 * 3, p - (1 << 64), p - (1 << 40)];
    let mut s = 0x9E3779B97F4A7C15u128;
    for _ in 0..40 { s = s.wrapping_mul(0x2d99787926d46932a4c1f32680f70c55).wrapping_add(1442695040888963407); vals.push(s % p); }
    let mut bad = 0; let mut n = 0;
    for &a in &vals { for &b in &vals { n += 1;
        let (x, y) = (F::new(a), F::new(b));
        let addexp = { let (s, c) = a.overflowing_add(b); if c || s >= p { s.wrapping_sub(p) } else { s } };
        if (x + y).as_int() != addexp { bad += 1; println!("f128 add {a} {b}"); }
        if (x - y).as_int() != (if a >= b { a - b } else { p - (b - a) }) { bad += 1; println!("f128 sub {a} {b}"); }
        if (x * y).as_int() != mulmod128(a, b, p) { bad += 1; println!("f128 mul {a} {b}"); }
    }
        let x = F::new(a);
        let inv = x.inv().as_int();
        if a == 0 { if inv != 0 { bad += 1; } } else if mulmod128(inv, a, p) != 1 { bad += 1; println!("f128 inv {a}"); }
    }
    println!("f128: pairs {n} bad {bad}");
}

fn ext2<B: ExtensibleField<2> + StarkField<PositiveInteger = u64> + Small>(name: &str, c0: i128, c1: i128) where {
    // irreducible x^2 = c1*x + c0  (i.e. x^2 - c1 x - c0)
    let p = B::MODULUS as u128; let vals = edge_vals(p);
    let md = |v: i128| -> u128 { ((v % p as i128) + p as i128) as u128 % p };
    let mut bad = 0; let mut n = 0;
    let pick: Vec<u128> = vals.iter().cloned().step_by(3).collect();
    for &a0 in &pick { for &a1 in &pick { for &b0 in &pick { for &b1 in pick.iter().step_by(2) { n += 1;
        let a = QuadExtension::<B>::new(B::mk(a0 as u64), B::mk(a1 as u64)); let b = QuadExtension::<B>::new(B::mk(b0 as u64), B::mk(b1 as u64));
        let t0 = mulmod128(a0, b0, p); let t1 = (mulmod128(a0, b1, p) + mulmod128(a1, b0, p)) % p; let t2 = mulmod128(a1, b1, p);
        let e0 = (t0 + mulmod128(t2, md(c0), p)) % p; let e1 = (t1 + mulmod128(t2, md(c1), p)) % p;
        let r = (a * b).to_base_elements();
        if r[0].as_int() as u128 != e0 || r[1].as_int() as u128 != e1 { bad += 1; if bad < 12 { println!("  {name} quad mul mismatch a=({a0},{a1}) b=({b0},{b1}) got ({},{}) exp ({e0},{e1})", r[0].as_int(), r[1].as_int()); } }
        if b0 == a0 && b1 == a1 { let s = a.square().to_base_elements(); if s[0].as_int() as u128 != e0 || s[1].as_int() as u128 != e1 { bad += 1; println!("  {name} quad square mismatch {a0} {a1}"); } }
        if (a0, a1) != (0, 0) { let i = a.inv(); if i * a != QuadExtension::<B>::ONE { bad += 1; println!("  {name} quad inv mismatch {a0} {a1}"); } }
    }}}}
    println!("{name} quad: {n} cases bad {bad}");
}

fn ext3<B: ExtensibleField<3> + StarkField<PositiveInteger = u64> + Small>(name: &str, c0: i128, c1: i128) {
    // irreducible: x^3 = c1*x + c0
    let p = B::MODULUS as u128; let vals = edge_vals(p);
    let md = |v: i128| -> u128 { ((v % p as i128) + p as i128) as u128 % p };
    let (c0, c1) = (md(c0), md(c1));
    let mut bad = 0; let mut n = 0;
    let pick: Vec<u128> = vals.iter().cloned().step_by(5).collect();
    let red = |t: [u128; 5]| -> [u128; 3] {
        // t0 + t1 x + t2 x^2 + t3 x^3 + t4 x^4 ; x^3 = c1 x + c0 ; x^4 = c1 x^2 + c0 x
        let e0 = (t[0] + mulmod128(t[3], c0, p)) % p;
        let e1 = (t[1] + mulmod128(t[3], c1, p) + mulmod128(t[4], c0, p)) % p;
        let e2 = (t[2] + mulmod128(t[4], c1, p)) % p;
        [e0, e1, e2]
    };
    let mut idx = 0usize;
    for &a0 in &pick { for &a1 in &pick { for &a2 in &pick { for &b0 in &pick { for &b1 in &pick { for &b2 in &pick { idx += 1; if idx % 7 != 0 && !(a0 == b0 && a1 == b1 && a2 == b2) { continue; } n += 1;
        let a = CubeExtension::<B>::new(B::mk(a0 as u64), B::mk(a1 as u64), B::mk(a2 as u64)); let b = CubeExtension::<B>::new(B::mk(b0 as u64), B::mk(b1 as u64), B::mk(b2 as u64));
        let m = |x, y| mulmod128(x, y, p);
        let t = [m(a0, b0), (m(a0, b1) + m(a1, b0)) % p, (m(a0, b2) + m(a1, b1) + m(a2, b0)) % p, (m(a1, b2) + m(a2, b1)) % p, m(a2, b2)];
        let e = red(t);
        let r = (a * b).to_base_elements();
        if (0..3).any(|i| r[i].as_int() as u128 != e[i]) { bad += 1; if bad < 8 { println!("  {name} cube mul mismatch a=({a0},{a1},{a2}) b=({b0},{b1},{b2}) got {:?} exp {:?}", r.iter().map(|x| x.as_int()).collect::<Vec<_>>(), e); } }
        if a0 == b0 && a1 == b1 && a2 == b2 { let s = a.square().to_base_elements(); if (0..3).any(|i| s[i].as_int() as u128 != e[i]) { bad += 1; if bad < 8 { println!("  {name} cube square mismatch ({a0},{a1},{a2})"); } }
            if (a0, a1, a2) != (0, 0, 0) { let i = a.inv(); if i * a != CubeExtension::<B>::ONE { bad += 1; if bad < 8 { println!("  {name} cube inv mismatch ({a0},{a1},{a2})"); } } }
            let c = a.conjugate(); let cc = c.conjugate().conjugate(); if cc != a { bad += 1; if bad < 8 { println!("  {name} frobenius^3 != id ({a0},{a1},{a2})"); } }
        }
    }}}}}}
    println!("{name} cube: {n} cases bad {bad}");
}

pub fn run() {
    small::<f62::BaseElement>("f62");
    small::<g64::BaseElement>("f64");
    big();
    ext2::<f62::BaseElement>("f62", 1, 1);
    ext2::<g64::BaseElement>("f64", -2, 1);
    ext3::<g64::BaseElement>("f64", 1, 1);
    ext3::<f62::BaseElement>("f62", -2, -2);
}
