use winter_air::{proof::{Context, Proof}, FieldExtension, ProofOptions, TraceInfo};
use winter_crypto::hashers::{Blake3_192, Blake3_256, Rp62_248};
use winter_math::fields::{f128, f62, f64 as g64};

fn level<const W: u32>(p: &Proof, conj: bool) -> u32 { match W { 96 => p.security_level::<Blake3_192<f128::BaseElement>>(conj), 124 => p.security_level::<Rp62_248>(conj), _ => p.security_level::<Blake3_256<f128::BaseElement>>(conj) } }

fn mk(bits: u32, tl: usize, o: ProofOptions) -> Proof {
    let ti = TraceInfo::new(1, tl);
    let ctx = match bits { 62 => Context::new::<f62::BaseElement>(ti, o), 64 => Context::new::<g64::BaseElement>(ti, o), _ => Context::new::<f128::BaseElement>(ti, o) };
    let mut p = Proof::new_dummy(); p.context = ctx; p
}
fn reference(bits: u32, ext: u32, tl: usize, q: u32, bl: u32, g: u32, cr: u32) -> u32 {
    let field = bits * ext - (tl as u64 * bl as u64).ilog2();
    let mut qs = bl.ilog2() * q; if qs >= 80 { qs += g; }
    (field.min(qs) - 1).min(cr)
}
pub fn run() {
    std::panic::set_hook(Box::new(|_| {}));
    let exts = [(FieldExtension::None, 1u32), (FieldExtension::Quadratic, 2), (FieldExtension::Cubic, 3)];
    let mut n = 0u64; let mut bad = 0u64; let mut panics = 0u64; let mut nonmono = 0u64;
    for &bits in &[62u32, 64, 128] { for &(e, ed) in &exts { for log_tl in [3u32, 10, 20, 24] { for &bl in &[2usize, 4, 8, 16, 32, 64, 128] { if log_tl + bl.ilog2() > 31 { continue; } for g in [0u32, 1, 15, 16, 20, 32] {
        let mut prev_c = [0u32; 3]; let mut prev_p = [0u32; 3];
        for q in 1..=255usize {
            let r = std::panic::catch_unwind(|| { let p = mk(bits, 1 << log_tl, ProofOptions::new(q, bl, g, e, 8, 127)); [level::<96>(&p, true), level::<124>(&p, true), level::<128>(&p, true), level::<96>(&p, false), level::<124>(&p, false), level::<128>(&p, false)] });
            match r { Err(_) => panics += 1, Ok(l) => { for (i, cr) in [96u32, 124, 128].iter().enumerate() { n += 1; let exp = reference(bits, ed, 1 << log_tl, q as u32, bl as u32, g, *cr); if l[i] != exp { bad += 1; if bad < 6 { println!("conj mismatch bits={bits} ext={ed} tl=2^{log_tl} bl={bl} g={g} q={q} cr={cr}: got {} exp {exp}", l[i]); } }
                if l[i] < prev_c[i] || l[3 + i] < prev_p[i] { nonmono += 1; if nonmono < 6 { println!("non-monotone in q: bits={bits} ext={ed} tl=2^{log_tl} bl={bl} g={g} q={q} conj {}->{} proven {}->{}", prev_c[i], l[i], prev_p[i], l[3 + i]); } } prev_c[i] = l[i]; prev_p[i] = l[3 + i]; } } }
        }
    }}}}}
    println!("c18: evaluated {n} conj-mismatch {bad} panics {panics} non-monotone(q) {nonmono}");
}
