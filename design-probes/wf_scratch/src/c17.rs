use winter_prover::{CompositionPoly, ConstraintEvaluator, DefaultConstraintEvaluator, DefaultTraceLde, StarkDomain, TraceTable, Trace};
use winterfell::{Air, ConstraintCompositionCoefficients, EvaluationFrame, ProofOptions, FieldExtension, TraceInfo};
use winterfell::crypto::hashers::Blake3_256;
use winterfell::math::{fields::f64::BaseElement as B, polynom, FieldElement, StarkField, get_power_series};
use crate::mix::{MixAir, MixPub};

pub fn run() {
    let mut bad = 0; let mut total = 0;
    for &n in &[8usize, 16, 64, 128] { for &e in &[1usize, 2, 3, n / 2 + 1] { for &seq_len in &[2usize, n / 2] { for fs_sel in 0..2 {
        let stride = n / seq_len; let first_step = if fs_sel == 0 { 0 } else { stride - 1 };
        let (cols, pubs) = crate::mix::build::<B>(n, e, seq_len, first_step);
        let trace = TraceTable::init(cols.clone());
        let opts = ProofOptions::new(4, 8, 0, FieldExtension::None, 4, 7);
        let air = MixAir::<B>::new(trace.info().clone(), pubs.clone(), opts);
        let domain = StarkDomain::new(&air);
        let (lde, _polys) = DefaultTraceLde::<B, Blake3_256<B>>::new(trace.info(), trace.main_segment(), &domain);
        let nt = air.context().num_transition_constraints(); let na = air.context().num_assertions();
        let cc = ConstraintCompositionCoefficients::<B> { transition: (0..nt).map(|i| B::new(1000 + i as u64 * 77)).collect(), boundary: (0..na).map(|i| B::new(5000 + i as u64 * 131)).collect(), lagrange: None };
        let cc2 = ConstraintCompositionCoefficients::<B> { transition: cc.transition.clone(), boundary: cc.boundary.clone(), lagrange: None };
        let ev = DefaultConstraintEvaluator::<MixAir<B>, B>::new(&air, None, cc);
        let ctrace = ev.evaluate(&lde, &domain);
        let ncols = air.context().num_constraint_composition_columns();
        let cp = CompositionPoly::new(ctrace, &domain, ncols);
        // reference at random x
        let g = B::get_root_of_unity(n.ilog2());
        let xs_dom = get_power_series(g, n);
        let tpolys: Vec<Vec<B>> = cols.iter().map(|c| polynom::interpolate(&xs_dom, c, false)).collect();
        for k in 0..4u64 {
            let x = B::new(0xDEADBEEF + k * 0x1234567);
            let cur: Vec<B> = tpolys.iter().map(|p| polynom::eval(p, x)).collect();
            let nxt: Vec<B> = tpolys.iter().map(|p| polynom::eval(p, x * g)).collect();
            let frame = EvaluationFrame::from_rows(cur.clone(), nxt);
            let per: Vec<B> = air.get_periodic_column_polys().iter().map(|p| polynom::eval(p, x.exp((n / p.len()) as u64))).collect();
            let mut t = vec![B::ZERO; nt];
            air.evaluate_transition(&frame, &per, &mut t);
            let tsum = t.iter().zip(&cc2.transition).fold(B::ZERO, |a, (v, c)| a + *v * *c);
            // divisor: (x^n - 1)/prod_{last e}(x - g^k)
            let mut z = x.exp(n as u64) - B::ONE; for k in n - e..n { z = z / (x - g.exp(k as u64)); }
            let mut expect = tsum / z;
            // boundary: assertions sorted as the library sorts them (by stride, first_step, column)
            let mut asserts = air.get_assertions(); asserts.sort();
            for (a, c) in asserts.iter().zip(&cc2.boundary) {
                let mut stepsv = vec![]; a.apply(n, |s, v| stepsv.push((s, v)));
                let pts: Vec<B> = stepsv.iter().map(|(s, _)| g.exp(*s as u64)).collect(); let vals: Vec<B> = stepsv.iter().map(|(_, v)| *v).collect();
                let vp = polynom::interpolate(&pts, &vals, false);
                let zb = pts.iter().fold(B::ONE, |acc, p| acc * (x - *p));
                expect += *c * (cur[a.column()] - polynom::eval(&vp, x)) / zb;
            }
            let got = cp.evaluate_at(x).iter().enumerate().fold(B::ZERO, |acc, (i, v)| acc + x.exp((i * n) as u64) * *v);
            total += 1;
            if got != expect { bad += 1; if bad < 12 { println!("MISMATCH n={n} e={e} seq={seq_len} fs={first_step} ncols={ncols}"); } }
        }
    }}}}
    println!("c17: total {total} bad {bad}");
    let _ = MixPub::<B> { e: 1, first_step: 0, singles: vec![], seq: vec![] };
}
