use winter_crypto::{hashers::Blake3_256, BatchMerkleProof, Hasher, MerkleTree};
use winter_math::fields::f128::BaseElement as B;
type H = Blake3_256<B>;
fn cl(p: &BatchMerkleProof<H>) -> BatchMerkleProof<H> { BatchMerkleProof { leaves: p.leaves.clone(), nodes: p.nodes.clone(), depth: p.depth } }
pub fn run() {
    std::panic::set_hook(Box::new(|_| {}));
    let leaves: Vec<_> = (0..16u32).map(|i| H::hash(&i.to_le_bytes())).collect();
    let t = MerkleTree::<H>::new(leaves.clone()).unwrap();
    let idx = [1usize, 6, 7, 12];
    let p = t.prove_batch(&idx).unwrap();
    println!("honest: {:?}", MerkleTree::<H>::verify_batch(t.root(), &idx, &p).is_ok());
    // extra node appended to a node vector
    let mut q = cl(&p); q.nodes[0].push(H::hash(b"junk"));
    println!("extra node: accepted={:?}", MerkleTree::<H>::verify_batch(t.root(), &idx, &q).is_ok());
    // extra leaf appended
    let mut q = cl(&p); q.leaves.push(H::hash(b"junk"));
    println!("extra leaf: accepted={:?}", MerkleTree::<H>::verify_batch(t.root(), &idx, &q).is_ok());
    // reordered index list
    let idx2 = [12usize, 1, 7, 6];
    println!("reordered idx (same proof): accepted={:?}", MerkleTree::<H>::verify_batch(t.root(), &idx2, &p).is_ok());
    // depth too large
    for d in [0u8, 3, 5, 63, 64, 200] { let mut q = cl(&p); q.depth = d; let r = std::panic::catch_unwind(|| MerkleTree::<H>::verify_batch(t.root(), &idx, &q).is_ok()); println!("depth {d}: {:?}", r.map_err(|_| "PANIC")); }
    // single-path verify with short proof
    for l in 0..3 { let path = t.prove(3).unwrap(); let r = std::panic::catch_unwind(|| MerkleTree::<H>::verify(*t.root(), 3, &path[..l]).is_ok()); println!("verify path len {l}: {:?}", r.map_err(|_| "PANIC")); }
    // into_paths / from_paths round trip incl. unsorted indexes
    let paths = cl(&p).into_paths(&idx).unwrap();
    let again = BatchMerkleProof::<H>::from_paths(&paths, &idx);
    println!("from_paths(into_paths)==orig: {}", again == p);
    let p2 = t.prove_batch(&idx2).unwrap();
    let r = cl(&p2).into_paths(&idx2).map(|paths| { let ok = paths.iter().zip(idx2.iter()).all(|(pa, &i)| MerkleTree::<H>::verify(*t.root(), i, pa).is_ok() && pa[0] == leaves[i]); (ok, BatchMerkleProof::<H>::from_paths(&paths, &idx2) == p2) });
    println!("unsorted idx: into_paths ok/roundtrip {:?}", r);
    // index out of range congruent mod 16 for single verify
    let path = t.prove(3).unwrap();
    println!("verify index 19 with path for 3: accepted={:?}", MerkleTree::<H>::verify(*t.root(), 19, &path).is_ok());
}
