mod stark;
mod fri_exp;
mod c11;
mod c20;
mod c18;
mod c17;
mod c16;
mod reccoin;
mod mix;
mod merkle_exp;
mod field_exp;
mod fft_exp;
mod fri_c15;
use stark::*;
use std::marker::PhantomData;
use winterfell::{Serializable,
    crypto::{hashers::*, DefaultRandomCoin, ElementHasher},
    math::{fields::{f128, f62, f64 as g64}, ExtensibleField, FieldElement, StarkField},
    verify, AcceptableOptions, FieldExtension, Proof, ProofOptions, Prover, Trace,
};

fn run<B, H>(w: usize, n: usize, start: Vec<B>, opts: ProofOptions) -> Result<(Proof, Pub<B>), String>
where B: StarkField + ExtensibleField<2> + ExtensibleField<3> + 'static, H: ElementHasher<BaseField = B> + Sync + Send {
    let trace = build_trace::<B>(w, n, &start);
    let p = SqProver::<B, H> { options: opts, _h: PhantomData };
    let pi = p.get_pub_inputs(&trace);
    let r = std::panic::catch_unwind(std::panic::AssertUnwindSafe(|| p.prove(trace)));
    match r { Ok(Ok(pr)) => Ok((pr, pi)), Ok(Err(e)) => Err(format!("err {e}")), Err(_) => Err("PANIC in prove".into()) }
}

fn ver<B, H>(proof: Proof, pi: Pub<B>) -> String
where B: StarkField + ExtensibleField<2> + ExtensibleField<3> + 'static, H: ElementHasher<BaseField = B> + Sync + Send {
    let r = std::panic::catch_unwind(std::panic::AssertUnwindSafe(|| verify::<SqAir<B>, H, DefaultRandomCoin<H>>(proof, pi, &AcceptableOptions::MinConjecturedSecurity(0))));
    match r { Ok(Ok(())) => "ACCEPT".into(), Ok(Err(e)) => format!("REJECT {e}"), Err(_) => "PANIC in verify".into() }
}

fn main() {
    let which = std::env::args().nth(1).unwrap_or_default();
    type B = g64::BaseElement;
    type H = Blake3_256<B>;
    match which.as_str() {
        "fri" => fri_exp::run(),
        "c11" => c11::run(),
        "c20" => c20::run(),
        "c18" => c18::run(),
        "c17" => c17::run(),
        "c16" => c16::run(),
        "c04" => {
            let r = mix::one::<g64::BaseElement, Blake3_256<g64::BaseElement>>(64, 1, 4, 1, ProofOptions::new(5, 4, 3, FieldExtension::Quadratic, 4, 3));
            println!("{r}");
            let log = reccoin::LOG.lock().unwrap();
            let p: Vec<_> = log.iter().filter(|l| l.starts_with("P ")).map(|l| &l[2..]).collect();
            let v: Vec<_> = log.iter().filter(|l| l.starts_with("V ")).map(|l| &l[2..]).collect();
            println!("prover ops {} verifier ops {}", p.len(), v.len());
            let mut i = 0; let mut j = 0;
            while i < p.len() || j < v.len() { let a = p.get(i).copied().unwrap_or("-"); let b = v.get(j).copied().unwrap_or("-"); if a == b { println!("  = {a}"); i += 1; j += 1; } else { println!("  P {a}   |   V {b}"); i += 1; j += 1; } }
        }
        "c02" => {
            std::panic::set_hook(Box::new(|_| {}));
            let mut tally = std::collections::BTreeMap::<String, usize>::new();
            for &(n, e) in &[(16usize, 1usize), (16, 3), (8, 5), (32, 4)] { for c in 0..3 { for st in 0..n {
                let (r, valid) = mix::one_c::<g64::BaseElement, Blake3_256<g64::BaseElement>>(n, e, 4, 1, ProofOptions::new(4, 4, 0, FieldExtension::None, 2, 1), Some((c, st)));
                let key = format!("n={n} e={e} valid={valid} -> {}", &r[..r.len().min(40)]);
                *tally.entry(key).or_default() += 1;
                if valid && !r.starts_with("ACCEPT") || !valid && r.starts_with("ACCEPT") { println!("!! mismatch n={n} e={e} col={c} step={st} valid={valid} result={r}"); }
            }}}
            for (k, v) in tally { println!("{k}: {v}"); }
        }
        "mix" => {
            std::panic::set_hook(Box::new(|i| eprintln!("   panic: {i}")));
            let mut res = std::collections::BTreeMap::<String, Vec<String>>::new();
            for &n in &[8usize, 16, 64, 128, 256] { for &e in &[1usize, 2, 3, n / 2, n / 2 + 1] { for &seq_len in &[2usize, 4, n / 4, n / 2] { for fs_sel in 0..2 { for &(q, bl, ff, rem) in &[(4usize, 4usize, 2usize, 1usize), (20, 8, 4, 7), (3, 4, 8, 3), (6, 16, 16, 15)] {
                if seq_len < 2 { continue; }
                let stride = n / seq_len; let first_step = if fs_sel == 0 { 0 } else { stride - 1 };
                let cfg = format!("n={n} e={e} seq={seq_len} fs={first_step} q={q} bl={bl} fold={ff} rem={rem}");
                // skip ill-formed FRI schedules
                let mut d = n * bl; let mut ok = true; while d > (rem + 1) * bl { if d / ff < 2 * ff.min(2) || d % ff != 0 { ok = false; break; } d /= ff; } if !ok || q >= n * bl { continue; }
                let r1 = mix::one::<f128::BaseElement, Blake3_256<f128::BaseElement>>(n, e, seq_len, first_step, ProofOptions::new(q, bl, 0, FieldExtension::None, ff, rem));
                res.entry(format!("f128/none: {r1}")).or_default().push(cfg.clone());
                let r2 = mix::one::<g64::BaseElement, Rp64_256>(n, e, seq_len, first_step, ProofOptions::new(q, bl, 2, FieldExtension::Quadratic, ff, rem));
                res.entry(format!("f64/quad: {r2}")).or_default().push(cfg.clone());
                let r3 = mix::one::<f62::BaseElement, Rp62_248>(n, e, seq_len, first_step, ProofOptions::new(q, bl, 1, FieldExtension::Cubic, ff, rem));
                res.entry(format!("f62/cubic: {r3}")).or_default().push(cfg.clone());
            }}}}}
            for (k, v) in res { println!("{k}  x{}", v.len()); if k.contains("REJECT") && k.starts_with("f128") { let mut set = std::collections::BTreeSet::new(); for c in &v { let parts: Vec<&str> = c.split(' ').collect(); set.insert(format!("{} {} {} {}", parts[0], parts[1], parts[2], parts[3])); } for x in set { println!("    {x}"); } } }
        }
        "merkle" => merkle_exp::run(),
        "field" => field_exp::run(),
        "fft" => fft_exp::run(),
        "c15" => fri_c15::run(),
        "malle" => {
            let o = ProofOptions::new(8, 4, 0, FieldExtension::None, 4, 7);
            let mk = || run::<B, H>(2, 16, vec![B::new(2), B::new(3)], o.clone()).unwrap();
            // 1. gkr_proof Some(..) on an AIR without GKR
            let (mut p, pi) = mk();
            p.gkr_proof = Some(vec![1, 2, 3]);
            println!("gkr_proof Some([1,2,3]): {}", ver::<B, H>(p, pi));
            // 2. trailing bytes in the whole proof
            let (p, pi) = mk();
            let mut b = p.to_bytes(); b.extend_from_slice(&[9u8; 7]);
            println!("trailing bytes: {}", ver::<B, H>(Proof::from_bytes(&b).unwrap(), pi));
            // 3. huge gkr length prefix
            let (p, _pi) = mk();
            let mut b = p.to_bytes();
            let l = b.len(); b[l - 1] = 1; // Some
            b.push(0); b.extend_from_slice(&(1u64 << 40).to_le_bytes()); // vint64 9-byte form
            let r = std::panic::catch_unwind(|| Proof::from_bytes(&b).map(|_| ()));
            println!("huge gkr len: {:?}", r);
        }
        "conc" => {
            let w: usize = std::env::args().nth(2).unwrap().parse().unwrap();
            let n: usize = std::env::args().nth(3).unwrap().parse().unwrap();
            let bl: usize = std::env::args().nth(4).unwrap().parse().unwrap();
            let o = ProofOptions::new(4, bl, 0, FieldExtension::None, 2, 1);
            let start: Vec<B> = (0..w).map(|i| B::new(i as u64 + 2)).collect();
            match run::<B, H>(w, n, start, o.clone()) {
                Ok((p, pi)) => { let c = p.commitments.clone(); println!("commitments {:?}", &c.to_bytes()[..20]); println!("{}", ver::<B, H>(p, pi)); }
                Err(e) => println!("{e}"),
            }
        }
        "basic" => {
            let o = ProofOptions::new(8, 4, 0, FieldExtension::None, 4, 7);
            let (p, pi) = run::<B, H>(3, 16, vec![B::new(2), B::new(3), B::new(5)], o).unwrap();
            let bytes = p.to_bytes();
            println!("proof bytes {}", bytes.len());
            println!("{}", ver::<B, H>(Proof::from_bytes(&bytes).unwrap(), pi));
        }
        "degenerate" => {
            let o = ProofOptions::new(8, 4, 0, FieldExtension::None, 4, 7);
            for s in [0u64, 1] {
                let r = run::<B, H>(2, 16, vec![B::new(s), B::new(s)], o.clone());
                match r { Ok((p, pi)) => println!("start {s}: {}", ver::<B, H>(p, pi)), Err(e) => println!("start {s}: {e}") }
            }
        }
        "wide" => {
            let o = ProofOptions::new(8, 4, 0, FieldExtension::None, 4, 7);
            for w in [254usize, 255] {
                let start: Vec<B> = (0..w).map(|i| B::new(i as u64 + 2)).collect();
                match run::<B, H>(w, 16, start, o.clone()) {
                    Ok((p, pi)) => {
                        let bytes = p.to_bytes();
                        let rt = std::panic::catch_unwind(|| Proof::from_bytes(&bytes).map(|_| ()));
                        println!("w={w}: direct {} ; from_bytes {:?}", ver::<B, H>(p, pi), rt);
                    }
                    Err(e) => println!("w={w}: {e}"),
                }
            }
        }
        "q255" => {
            for q in [254usize, 255] {
                let o = ProofOptions::new(q, 16, 0, FieldExtension::None, 4, 7);
                let start = vec![B::new(3)];
                match run::<B, H>(1, 4096, start, o.clone()) {
                    Ok((p, pi)) => { let u = p.num_unique_queries; println!("q={q}: unique {} -> {}", u, ver::<B, H>(p, pi)); }
                    Err(e) => println!("q={q}: {e}"),
                }
            }
        }
        "fuzzbytes" => {
            let o = ProofOptions::new(8, 4, 0, FieldExtension::None, 4, 7);
            let (p, _pi) = run::<B, H>(2, 16, vec![B::new(2), B::new(3)], o).unwrap();
            let bytes = p.to_bytes();
            std::panic::set_hook(Box::new(|_| {}));
            let mut sites = std::collections::BTreeMap::<String, usize>::new();
            let mut accepted = 0; let mut rejected = 0; let mut parsefail = 0;
            for pos in 0..bytes.len() {
                for val in [0u8, 1, 2, 3, 127, 128, 254, 255] {
                    let mut b = bytes.clone(); if b[pos] == val { continue; } b[pos] = val;
                    let loc = std::sync::Arc::new(std::sync::Mutex::new(String::new()));
                    let l2 = loc.clone();
                    std::panic::set_hook(Box::new(move |i| { *l2.lock().unwrap() = format!("{} :: {}", i.location().map(|l| format!("{}:{}", l.file(), l.line())).unwrap_or_default(), i.payload().downcast_ref::<String>().cloned().or_else(|| i.payload().downcast_ref::<&str>().map(|s| s.to_string())).unwrap_or_default()); }));
                    let r = std::panic::catch_unwind(|| {
                        match Proof::from_bytes(&b) {
                            Err(_) => 0,
                            Ok(p) => {
                                let pi = Pub { start: vec![B::new(2), B::new(3)], end: vec![B::new(2).exp(1u64 << 15), B::new(3).exp(1u64 << 15)] };
                                match verify::<SqAir<B>, H, DefaultRandomCoin<H>>(p, pi, &AcceptableOptions::MinConjecturedSecurity(0)) { Ok(_) => 1, Err(_) => 2 }
                            }
                        }
                    });
                    match r { Ok(0) => parsefail += 1, Ok(1) => { accepted += 1; println!("ACCEPTED mutation pos {pos} val {val}"); }, Ok(_) => rejected += 1,
                        Err(_) => { *sites.entry(loc.lock().unwrap().clone()).or_default() += 1; } }
                }
            }
            println!("parsefail {parsefail} rejected {rejected} accepted {accepted}");
            for (k, v) in sites { println!("PANIC x{v}: {k}"); }
        }
        _ => {}
    }
}
