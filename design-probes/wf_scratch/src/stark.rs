use std::marker::PhantomData;
use winterfell::{
    crypto::{DefaultRandomCoin, ElementHasher},
    math::{ExtensibleField, FieldElement, StarkField, ToElements},
    matrix::ColMatrix,
    Air, AirContext, Assertion, AuxRandElements, ConstraintCompositionCoefficients,
    DefaultConstraintEvaluator, DefaultTraceLde, EvaluationFrame, ProofOptions, Prover,
    StarkDomain, TraceInfo, TracePolyTable, TraceTable, TransitionConstraintDegree,
};

pub struct Pub<B: StarkField> { pub start: Vec<B>, pub end: Vec<B> }
impl<B: StarkField> ToElements<B> for Pub<B> {
    fn to_elements(&self) -> Vec<B> { let mut v = self.start.clone(); v.extend_from_slice(&self.end); v }
}

pub struct SqAir<B: StarkField> { ctx: AirContext<B>, start: Vec<B>, end: Vec<B> }

impl<B: StarkField + ExtensibleField<2> + ExtensibleField<3>> Air for SqAir<B> {
    type BaseField = B;
    type PublicInputs = Pub<B>;
    type GkrProof = ();
    type GkrVerifier = ();
    fn new(ti: TraceInfo, p: Pub<B>, o: ProofOptions) -> Self {
        let w = ti.width();
        let degs = vec![TransitionConstraintDegree::new(2); w];
        SqAir { ctx: AirContext::new(ti, degs, 2 * w, o), start: p.start, end: p.end }
    }
    fn context(&self) -> &AirContext<B> { &self.ctx }
    fn evaluate_transition<E: FieldElement<BaseField = B>>(&self, f: &EvaluationFrame<E>, _p: &[E], r: &mut [E]) {
        for i in 0..r.len() { r[i] = f.next()[i] - f.current()[i] * f.current()[i]; }
    }
    fn get_assertions(&self) -> Vec<Assertion<B>> {
        let last = self.trace_length() - 1;
        let mut v = vec![];
        for i in 0..self.start.len() {
            v.push(Assertion::single(i, 0, self.start[i]));
            v.push(Assertion::single(i, last, self.end[i]));
        }
        v
    }
}

pub struct SqProver<B: StarkField, H> { pub options: ProofOptions, pub _h: PhantomData<(B, H)> }

impl<B, H> Prover for SqProver<B, H>
where B: StarkField + ExtensibleField<2> + ExtensibleField<3> + 'static, H: ElementHasher<BaseField = B> + Sync + Send,
{
    type BaseField = B;
    type Air = SqAir<B>;
    type Trace = TraceTable<B>;
    type HashFn = H;
    type RandomCoin = DefaultRandomCoin<H>;
    type TraceLde<E: FieldElement<BaseField = B>> = DefaultTraceLde<E, H>;
    type ConstraintEvaluator<'a, E: FieldElement<BaseField = B>> = DefaultConstraintEvaluator<'a, SqAir<B>, E>;
    fn get_pub_inputs(&self, t: &Self::Trace) -> Pub<B> {
        use winterfell::Trace;
        let w = t.main_trace_width(); let n = t.length();
        Pub { start: (0..w).map(|i| t.get(i, 0)).collect(), end: (0..w).map(|i| t.get(i, n - 1)).collect() }
    }
    fn options(&self) -> &ProofOptions { &self.options }
    fn new_trace_lde<E: FieldElement<BaseField = B>>(&self, ti: &TraceInfo, m: &ColMatrix<B>, d: &StarkDomain<B>) -> (Self::TraceLde<E>, TracePolyTable<E>) {
        DefaultTraceLde::new(ti, m, d)
    }
    fn new_evaluator<'a, E: FieldElement<BaseField = B>>(&self, air: &'a SqAir<B>, aux: Option<AuxRandElements<E>>, cc: ConstraintCompositionCoefficients<E>) -> Self::ConstraintEvaluator<'a, E> {
        DefaultConstraintEvaluator::new(air, aux, cc)
    }
}

pub fn build_trace<B: StarkField>(w: usize, n: usize, start: &[B]) -> TraceTable<B> {
    let mut t = TraceTable::new(w, n);
    t.fill(|s| s.copy_from_slice(start), |_, s| for x in s.iter_mut() { *x = *x * *x; });
    t
}
