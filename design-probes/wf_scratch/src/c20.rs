use winter_math::{fields::{f62::BaseElement as B, QuadExtension}, polynom, FieldElement, batch_inversion, get_power_series_with_offset};
type Q = QuadExtension<B>;
struct R(u64); impl R { fn n(&mut self) -> u64 { self.0 ^= self.0 << 13; self.0 ^= self.0 >> 7; self.0 ^= self.0 << 17; self.0 } }
fn sb_mul<E: FieldElement>(a: &[E], b: &[E]) -> Vec<E> { let mut r = vec![E::ZERO; a.len() + b.len() - 1]; for i in 0..a.len() { for j in 0..b.len() { r[i + j] += a[i] * b[j]; } } r }
fn deg<E: FieldElement>(p: &[E]) -> Option<usize> { (0..p.len()).rev().find(|&i| p[i] != E::ZERO) }
fn rnd<E: FieldElement>(r: &mut R) -> E { let v = r.n(); if v % 5 == 0 { E::ZERO } else { E::from((v >> 32) as u32) * E::from((v >> 8) as u32) + E::from(3u8) } }
fn run_e<E: FieldElement>(name: &str) {
    std::panic::set_hook(Box::new(|_| {}));
    let mut r = R(0x1234567); let mut bad = std::collections::BTreeMap::<String, usize>::new(); let mut n = 0;
    for _ in 0..20000 {
        let la = 1 + (r.n() % 24) as usize; let lb = 1 + (r.n() % la as u64) as usize;
        let a: Vec<E> = (0..la).map(|_| rnd(&mut r)).collect(); let b: Vec<E> = (0..lb).map(|_| rnd(&mut r)).collect();
        n += 1;
        if polynom::mul(&a, &b) != sb_mul(&a, &b) { *bad.entry("mul".into()).or_default() += 1; }
        // div
        if let (Some(da), Some(db)) = (deg(&a), deg(&b)) { if da >= db {
            match std::panic::catch_unwind(std::panic::AssertUnwindSafe(|| polynom::div(&a, &b))) { Ok(q) => { let qb = sb_mul(&q, &b); let rem = polynom::sub(&a, &qb); let ok = match deg(&rem) { None => true, Some(dr) => dr < db }; if !ok { *bad.entry("div".into()).or_default() += 1; } }, Err(_) => { *bad.entry("div-panic".into()).or_default() += 1; } } } }
        // syn_div
        let k = 1 + (r.n() % 4) as usize; if a.len() > k { let c: E = { let v = rnd::<E>(&mut r); if v == E::ZERO { E::ONE } else if r.n() % 4 == 0 { E::ONE } else { v } };
            let q = polynom::syn_div(&a, k, c); let mut dv = vec![E::ZERO; k + 1]; dv[0] = -c; dv[k] = E::ONE; let back = sb_mul(&q, &dv); let rem = polynom::sub(&a, &back[..back.len().min(a.len().max(back.len()))].to_vec()); let ok = match deg(&rem) { None => true, Some(dr) => dr < k }; if !ok { *bad.entry(format!("syn_div a={k}")).or_default() += 1; } }
        // interpolate
        let m = 1 + (r.n() % 12) as usize; let xs: Vec<E> = (0..m).map(|i| E::from(i as u32 * 7 + 1) + E::from((r.n() % 3) as u32) * E::from(1000u32 + i as u32)).collect();
        let mut uniq = xs.clone(); uniq.dedup(); let distinct = (0..m).all(|i| (0..i).all(|j| xs[i] != xs[j]));
        if distinct { let ys: Vec<E> = (0..m).map(|_| rnd(&mut r)).collect(); let p = polynom::interpolate(&xs, &ys, false); if p.len() != m || (0..m).any(|i| polynom::eval(&p, xs[i]) != ys[i]) { *bad.entry("interpolate".into()).or_default() += 1; }
            let roots = polynom::poly_from_roots(&xs); if xs.iter().any(|x| polynom::eval(&roots, *x) != E::ZERO) || roots[m] != E::ONE { *bad.entry("poly_from_roots".into()).or_default() += 1; } }
        // batch inversion
        let v: Vec<E> = (0..(1 + r.n() % 40)).map(|_| rnd(&mut r)).collect(); let inv = batch_inversion(&v); if (0..v.len()).any(|i| if v[i] == E::ZERO { inv[i] != E::ZERO } else { v[i] * inv[i] != E::ONE }) { *bad.entry("batch_inversion".into()).or_default() += 1; }
        let ps = get_power_series_with_offset(a[0], b[0], 10); let mut acc = b[0]; for i in 0..10 { if ps[i] != acc { *bad.entry("power_series".into()).or_default() += 1; break; } acc *= a[0]; }
    }
    println!("{name}: cases {n} bad {:?}", bad);
}
pub fn run() { run_e::<B>("f62"); run_e::<Q>("f62-quad"); run_e::<winter_math::fields::f64::BaseElement>("f64"); run_e::<winter_math::fields::f128::BaseElement>("f128"); }
