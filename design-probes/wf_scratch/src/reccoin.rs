use std::sync::Mutex;
use winterfell::crypto::{DefaultRandomCoin, Digest, ElementHasher, Hasher, RandomCoin};
use winterfell::math::{FieldElement, StarkField};
use winterfell::Serializable;
use winter_crypto::RandomCoinError;

pub static LOG: Mutex<Vec<String>> = Mutex::new(Vec::new());
pub static ROLE: Mutex<&'static str> = Mutex::new("?");
fn log(s: String) { let r = *ROLE.lock().unwrap(); LOG.lock().unwrap().push(format!("{r} {s}")); }
fn hx(b: &[u8]) -> String { b.iter().take(8).map(|x| format!("{x:02x}")).collect() }

pub struct RecCoin<H: ElementHasher>(DefaultRandomCoin<H>);
impl<B: StarkField, H: ElementHasher<BaseField = B>> RandomCoin for RecCoin<H> {
    type BaseField = B;
    type Hasher = H;
    fn new(seed: &[B]) -> Self { log(format!("new len={} h={}", seed.len(), hx(&H::hash_elements(seed).as_bytes()))); RecCoin(DefaultRandomCoin::new(seed)) }
    fn reseed(&mut self, data: <H as Hasher>::Digest) { log(format!("reseed {}", hx(&data.as_bytes()))); self.0.reseed(data) }
    fn check_leading_zeros(&self, value: u64) -> u32 { let r = self.0.check_leading_zeros(value); if *ROLE.lock().unwrap() != "P" { log(format!("clz {value} -> {r}")); } r }
    fn draw<E: FieldElement<BaseField = B>>(&mut self) -> Result<E, RandomCoinError> { let r = self.0.draw::<E>(); if let Ok(e) = &r { log(format!("draw{} {}", E::EXTENSION_DEGREE, hx(&e.to_bytes()))); } r }
    fn draw_integers(&mut self, n: usize, d: usize, nonce: u64) -> Result<Vec<usize>, RandomCoinError> { let r = self.0.draw_integers(n, d, nonce); log(format!("ints n={n} d={d} nonce={nonce} -> {:?}", r.as_ref().map(|v| v.len()))); r }
}
