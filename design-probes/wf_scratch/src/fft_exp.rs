use winter_math::{fft, fields::f128::BaseElement as B, polynom, FieldElement, StarkField, get_power_series_with_offset};
pub fn run() {
    for log in 1..=6u32 {
        let n = 1usize << log;
        let p: Vec<B> = (0..n as u128).map(|i| B::new(i * 7 + 3)).collect();
        let tw = fft::get_twiddles::<B>(n);
        for blowup in [1usize, 2, 4] {
            let ev = fft::evaluate_poly_with_offset(&p, &tw, B::GENERATOR, blowup);
            let g = B::get_root_of_unity((n * blowup).ilog2());
            let dom = get_power_series_with_offset(g, B::GENERATOR, n * blowup);
            let ok = (0..n * blowup).all(|i| ev[i] == polynom::eval(&p, dom[i]));
            let mut q = p.clone();
            fft::evaluate_poly(&mut q, &tw);
            let dom1 = get_power_series_with_offset(B::get_root_of_unity(log), B::ONE, n);
            let ok1 = (0..n).all(|i| q[i] == polynom::eval(&p, dom1[i]));
            let mut r = q.clone();
            fft::interpolate_poly(&mut r, &fft::get_inv_twiddles::<B>(n));
            println!("n={n} blowup={blowup} offset-eval ok={ok} plain ok={ok1} interp ok={}", r == p);
        }
    }
}
