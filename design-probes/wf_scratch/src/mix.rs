use std::marker::PhantomData;
use winterfell::{
    crypto::{DefaultRandomCoin, ElementHasher},
    math::{ExtensibleField, FieldElement, StarkField, ToElements},
    matrix::ColMatrix,
    verify, AcceptableOptions, Air, AirContext, Assertion, AuxRandElements, ConstraintCompositionCoefficients,
    DefaultConstraintEvaluator, DefaultTraceLde, EvaluationFrame, Proof, ProofOptions, Prover,
    StarkDomain, Trace, TraceInfo, TracePolyTable, TraceTable, TransitionConstraintDegree,
};

#[derive(Clone)]
pub struct MixPub<B: StarkField> { pub e: usize, pub first_step: usize, pub singles: Vec<(usize, usize, B)>, pub seq: Vec<B> }
impl<B: StarkField> ToElements<B> for MixPub<B> {
    fn to_elements(&self) -> Vec<B> {
        let mut v = vec![B::from(self.e as u32), B::from(self.first_step as u32)];
        for (c, s, x) in &self.singles { v.push(B::from(*c as u32)); v.push(B::from(*s as u32)); v.push(*x); }
        v.extend_from_slice(&self.seq); v
    }
}
pub struct MixAir<B: StarkField> { ctx: AirContext<B>, p: MixPub<B> }
fn periodic<B: StarkField>(n: usize) -> Vec<Vec<B>> {
    vec![(0..4).map(|i| B::from(i as u32 + 1)).collect(), (0..n / 2).map(|i| B::from((i * i + 3) as u32)).collect()]
}
impl<B: StarkField + ExtensibleField<2> + ExtensibleField<3>> Air for MixAir<B> {
    type BaseField = B; type PublicInputs = MixPub<B>; type GkrProof = (); type GkrVerifier = ();
    fn new(ti: TraceInfo, p: MixPub<B>, o: ProofOptions) -> Self {
        let n = ti.length();
        let degs = vec![TransitionConstraintDegree::new(2), TransitionConstraintDegree::with_cycles(1, vec![n / 2]), TransitionConstraintDegree::new(2)];
        let na = p.singles.len() + 1;
        let ctx = AirContext::new(ti, degs, na, o).set_num_transition_exemptions(p.e);
        MixAir { ctx, p }
    }
    fn context(&self) -> &AirContext<B> { &self.ctx }
    fn get_periodic_column_values(&self) -> Vec<Vec<B>> { periodic(self.trace_length()) }
    fn evaluate_transition<E: FieldElement<BaseField = B>>(&self, f: &EvaluationFrame<E>, p: &[E], r: &mut [E]) {
        let (c, n) = (f.current(), f.next());
        r[0] = n[0] - (c[0] * c[0] + p[0]);
        r[1] = n[1] - (c[1] * p[1] + c[0]);
        r[2] = n[2] - (c[2] + c[0] * c[1]);
    }
    fn get_assertions(&self) -> Vec<Assertion<B>> {
        let mut v: Vec<_> = self.p.singles.iter().map(|(c, s, x)| Assertion::single(*c, *s, *x)).collect();
        let stride = self.trace_length() / self.p.seq.len();
        v.push(Assertion::sequence(2, self.p.first_step, stride, self.p.seq.clone()));
        v
    }
}
pub struct MixProver<B: StarkField, H> { pub options: ProofOptions, pub pubs: MixPub<B>, pub _h: PhantomData<H> }
impl<B, H> Prover for MixProver<B, H>
where B: StarkField + ExtensibleField<2> + ExtensibleField<3> + 'static, H: ElementHasher<BaseField = B> + Sync + Send,
{
    type BaseField = B; type Air = MixAir<B>; type Trace = TraceTable<B>; type HashFn = H; type RandomCoin = crate::reccoin::RecCoin<H>;
    type TraceLde<E: FieldElement<BaseField = B>> = DefaultTraceLde<E, H>;
    type ConstraintEvaluator<'a, E: FieldElement<BaseField = B>> = DefaultConstraintEvaluator<'a, MixAir<B>, E>;
    fn get_pub_inputs(&self, _t: &Self::Trace) -> MixPub<B> { self.pubs.clone() }
    fn options(&self) -> &ProofOptions { &self.options }
    fn new_trace_lde<E: FieldElement<BaseField = B>>(&self, ti: &TraceInfo, m: &ColMatrix<B>, d: &StarkDomain<B>) -> (Self::TraceLde<E>, TracePolyTable<E>) { DefaultTraceLde::new(ti, m, d) }
    fn new_evaluator<'a, E: FieldElement<BaseField = B>>(&self, air: &'a MixAir<B>, aux: Option<AuxRandElements<E>>, cc: ConstraintCompositionCoefficients<E>) -> Self::ConstraintEvaluator<'a, E> { DefaultConstraintEvaluator::new(air, aux, cc) }
}

pub fn one<B, H>(n: usize, e: usize, seq_len: usize, first_step: usize, o: ProofOptions) -> String where B: StarkField + ExtensibleField<2> + ExtensibleField<3> + 'static, H: ElementHasher<BaseField = B> + Sync + Send { one_c::<B, H>(n, e, seq_len, first_step, o, None).0 }
pub fn one_c<B, H>(n: usize, e: usize, seq_len: usize, first_step: usize, o: ProofOptions, corrupt: Option<(usize, usize)>) -> (String, bool)
where B: StarkField + ExtensibleField<2> + ExtensibleField<3> + 'static, H: ElementHasher<BaseField = B> + Sync + Send {
    let per = periodic::<B>(n);
    let mut cols = vec![vec![B::ZERO; n]; 3];
    cols[0][0] = B::from(3u32); cols[1][0] = B::from(5u32); cols[2][0] = B::from(7u32);
    for i in 0..n - 1 {
        if i < n - e {
            cols[0][i + 1] = cols[0][i] * cols[0][i] + per[0][i % 4];
            cols[1][i + 1] = cols[1][i] * per[1][i % (n / 2)] + cols[0][i];
            cols[2][i + 1] = cols[2][i] + cols[0][i] * cols[1][i];
        } else { for c in 0..3 { cols[c][i + 1] = B::from((1000 + 17 * i + c) as u32); } }
    }
    let stride = n / seq_len;
    let seq: Vec<B> = (0..seq_len).map(|k| cols[2][first_step + k * stride]).collect();
    let singles = vec![(0, 0, cols[0][0]), (1, 0, cols[1][0]), (0, n - 1, cols[0][n - 1]), (1, n / 2 + 1, cols[1][n / 2 + 1])];
    let pubs = MixPub { e, first_step, singles, seq };
    let mut cols = cols;
    let mut valid = true;
    if let Some((c, st)) = corrupt {
        cols[c][st] += B::ONE;
        // reference validity predicate
        for i in 0..n - e {
            let ok = cols[0][i + 1] == cols[0][i] * cols[0][i] + per[0][i % 4]
                && cols[1][i + 1] == cols[1][i] * per[1][i % (n / 2)] + cols[0][i]
                && cols[2][i + 1] == cols[2][i] + cols[0][i] * cols[1][i];
            if !ok { valid = false; }
        }
        for (cc, ss, x) in &pubs.singles { if cols[*cc][*ss] != *x { valid = false; } }
        for (k, x) in pubs.seq.iter().enumerate() { if cols[2][first_step + k * stride] != *x { valid = false; } }
    }
    let trace = TraceTable::init(cols);
    let prover = MixProver::<B, H> { options: o, pubs: pubs.clone(), _h: PhantomData };
    *crate::reccoin::ROLE.lock().unwrap() = "P";
    let r = std::panic::catch_unwind(std::panic::AssertUnwindSafe(|| prover.prove(trace)));
    *crate::reccoin::ROLE.lock().unwrap() = "V";
    let proof = match r { Ok(Ok(p)) => p, Ok(Err(e)) => return (format!("prove err {e}"), valid), Err(_) => return ("PANIC prove".into(), valid) };
    let bytes = proof.to_bytes();
    let p2 = match Proof::from_bytes(&bytes) { Ok(p) => p, Err(e) => return (format!("roundtrip err {e}"), valid) };
    let r = std::panic::catch_unwind(std::panic::AssertUnwindSafe(|| verify::<MixAir<B>, H, crate::reccoin::RecCoin<H>>(p2, pubs, &AcceptableOptions::MinConjecturedSecurity(0))));
    (match r { Ok(Ok(())) => "ACCEPT".into(), Ok(Err(e)) => format!("REJECT {e}"), Err(_) => "PANIC verify".into() }, valid)
}

pub fn build<B: StarkField>(n: usize, e: usize, seq_len: usize, first_step: usize) -> (Vec<Vec<B>>, MixPub<B>) {
    let per = periodic::<B>(n);
    let mut cols = vec![vec![B::ZERO; n]; 3];
    cols[0][0] = B::from(3u32); cols[1][0] = B::from(5u32); cols[2][0] = B::from(7u32);
    for i in 0..n - 1 {
        if i < n - e {
            cols[0][i + 1] = cols[0][i] * cols[0][i] + per[0][i % 4];
            cols[1][i + 1] = cols[1][i] * per[1][i % (n / 2)] + cols[0][i];
            cols[2][i + 1] = cols[2][i] + cols[0][i] * cols[1][i];
        } else { for c in 0..3 { cols[c][i + 1] = B::from((1000 + 17 * i + c) as u32); } }
    }
    let stride = n / seq_len;
    let seq: Vec<B> = (0..seq_len).map(|k| cols[2][first_step + k * stride]).collect();
    let singles = vec![(0, 0, cols[0][0]), (1, 0, cols[1][0]), (0, n - 1, cols[0][n - 1]), (1, n / 2 + 1, cols[1][n / 2 + 1])];
    (cols, MixPub { e, first_step, singles, seq })
}
