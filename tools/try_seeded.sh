#!/bin/bash
# usage: tools/try_seeded.sh <patch.diff> <tier> <Cxx> [<Cxx> ...]
# applies a seeded change to /repo, runs the given checks, prints their verdict lines, and always restores /repo
set -u
PATCH=$1; TIER=$2; shift 2
cd /repo || exit 2
if ! git diff --quiet; then echo "refusing: /repo has uncommitted changes"; exit 2; fi
git apply "$PATCH" || { echo "patch does not apply"; exit 2; }
trap 'git -C /repo checkout -- . ; git -C /repo clean -fdq -- . 2>/dev/null; [ -n "${VERIF_EVIDENCE_DIR:-}" ] && rm -rf "$VERIF_EVIDENCE_DIR"' EXIT
cd /verif
export VERIF_EVIDENCE_DIR=$(mktemp -d /tmp/seeded_evid.XXXX)
for c in "$@"; do
  out=$(./check "$c" "$TIER" 2>&1)
  code=$?
  echo "== $c exit=$code"
  echo "$out" | grep -E "^VIOLATION|^  signature=|^  sanitizer=|^INCONCLUSIVE|^HARNESS" | cut -c1-330 | head -12
done
