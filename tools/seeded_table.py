#!/usr/bin/env python3
"""Regenerates seeded/README.md from seeded/*/meta.json."""
import json, glob, os
root = os.path.join(os.path.dirname(os.path.abspath(__file__)), "..", "seeded")
rows = []
for d in sorted(glob.glob(os.path.join(root, "C*-*"))):
    m = json.load(open(os.path.join(d, "meta.json")))
    rows.append((os.path.basename(d), m))
out = ["# Seeded changes", "",
       "Each directory holds one change to Nashtare/winterfell that breaks one property while the repository",
       "still compiles and its test suite passes (`patch.diff`), the author's demonstration (`demo.rs`, `RUN.md`,",
       "`notes.md`) and `meta.json`. All were written by independent sub-agents that saw only the property text and a",
       "scratch worktree; each was confirmed with `tools/confirm_seeded.sh` (demo fails with / passes without, suite",
       "green with) and run against the checks with `tools/try_seeded.sh <patch> quick <Cxx...>` (applies to /repo,",
       "runs, restores). None of them is ever committed to /repo.", "",
       "| id | change | needs, to manifest | caught by (quick tier) | remark |", "|---|---|---|---|---|"]
for name, m in rows:
    out.append("| %s | %s | %s | %s | %s |" % (name, m["change"].replace("|", "\\|"), m["needs"].replace("|", "\\|"), ", ".join(m["caught_by"]), m.get("note", "").replace("|", "\\|")))
open(os.path.join(root, "README.md"), "w").write("\n".join(out) + "\n")
print(len(rows), "entries")
