#!/bin/bash
# usage: tools/confirm_seeded.sh <worktree> <out dir> <demo path in tree> <cargo test args for the demo...>
# confirms: demo fails with the patch, suite passes with the patch (demo aside), demo passes without the patch
WT=$1; OUT=$2; DEMO=$3; shift 3
export CARGO_TARGET_DIR=$WT/target
cd $WT || exit 2
echo "--- demo with patch:"; cargo test --offline "$@" 2>&1 | grep -E "^test result|FAILED|panicked at" | head -6
mv $DEMO /tmp/_demo_aside_$$.rs
echo "--- workspace suite with patch (demo aside):"; cargo test --workspace --offline 2>&1 | grep "test result" | awk '{p+=$4; f+=$6} END{print "passed",p,"failed",f}'
mv /tmp/_demo_aside_$$.rs $DEMO
git apply -R $OUT/patch.diff || { echo "cannot reverse patch"; exit 2; }
echo "--- demo without patch:"; cargo test --offline "$@" 2>&1 | grep -E "^test result|FAILED" | head -4
git apply $OUT/patch.diff
