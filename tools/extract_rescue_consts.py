#!/usr/bin/env python3
"""One-off: copies MDS/ARK1/ARK2 of the three Rescue instantiations from /repo into
harness/src/rescue_consts.rs (run at the pinned commit; the output is committed and pins them)."""
import re
def extract(path, name):
    s = open(path).read()
    m = re.search(r'^(?:pub )?const ' + name + r': \[\[BaseElement; STATE_WIDTH\]; \w+\] = \[(.*?)^\];', s, re.S | re.M)
    rows = re.findall(r'\[(.*?)\]', m.group(1), re.S)
    return [[int(x) for x in re.findall(r'BaseElement::new\((\d+)\)', r)] for r in rows if 'BaseElement' in r]
base = '/repo/crypto/src/hash/rescue/'
out = ["//! Round constants and MDS matrices of the three Rescue instantiations, copied from the repository",
       "//! at the pinned commit (tools/extract_rescue_consts.py). They pin the published constants: the",
       "//! C11 monitor compares them with the library's public constants where those are exported and",
       "//! uses them in the textbook reference sponge.", "#![allow(clippy::all)]", ""]
for mod, pref in [('rp62_248', 'RP62'), ('rp64_256', 'RP64'), ('rp64_256_jive', 'JIVE')]:
    for name in ['MDS', 'ARK1', 'ARK2']:
        rows = extract(base + mod + '/mod.rs', name)
        out.append(f"pub const {pref}_{name}: [[u64; {len(rows[0])}]; {len(rows)}] = [")
        out += ["    [" + ", ".join(str(v) for v in r) + "]," for r in rows]
        out.append("];")
open('/verif/harness/src/rescue_consts.rs', 'w').write("\n".join(out) + "\n")
