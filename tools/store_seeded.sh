#!/bin/bash
# usage: tools/store_seeded.sh <Cxx> <n> "<change>" "<needs>" "<caught_by comma list>" [extra note]
ID=$1; N=$2; SRC=${SRC:-$1}; CHANGE=$3; NEEDS=$4; CAUGHT=$5; NOTE=${6:-}
D=/verif/seeded/$ID-$N; mkdir -p $D
cp /tmp/out_$SRC/patch.diff /tmp/out_$SRC/demo.rs $D/
for f in RUN.md notes.md; do [ -f /tmp/out_$SRC/$f ] && cp /tmp/out_$SRC/$f $D/; done
python3 - "$ID" "$CHANGE" "$NEEDS" "$CAUGHT" "$NOTE" "$D" <<'PY'
import json,sys
pid,change,needs,caught,note,d=sys.argv[1:7]
m={"breaks":pid,"needs":needs,"caught_by":[c for c in caught.split(",") if c],"change":change,"property":pid,
"origin":"independent sub-agent that saw only the property text",
"confirmed":"tools/confirm_seeded.sh: demo fails with the patch, repository suite 264/264 (220 baseline + doctests) passes with the patch, demo passes without; tools/try_seeded.sh quick: checks listed in caught_by exit 1 with VIOLATION, exit 0 after restoring /repo"}
if note: m["note"]=note
json.dump(m,open(d+"/meta.json","w"),indent=1)
PY
git -C /repo worktree remove --force /tmp/wt_$SRC 2>/dev/null; rm -rf /tmp/wt_$SRC /tmp/out_$SRC /tmp/conf_$SRC.log
echo stored $D
