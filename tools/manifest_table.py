NOTES = ("Runtime monitoring and sanitizers only. Every verdict is 'held on the executions observed'; evidence files list what the "
         "monitors saw. Exit 3 = inconclusive (never folded into pass or violation). Known findings: /verif/known_findings.txt.")
NOT_APPLICABLE = {}

C("C07",
  "Every public base-field operation is executed on boundary-directed operands (taken both as residues and as internal Montgomery images), "
  "on all ordered pairs of that boundary set and inside random programs of up to 12 operations, with a u128 reference in lock-step; every From/TryFrom conversion between elements and integers / byte arrays in both directions and Display are compared per field; value, "
  "==, serialized bytes and the documented representation range are asserted on every intermediate; inversion loops are step-bounded by a hook. "
  "Runtime oracle over ~10^6 (quick) to ~10^8 (thorough) operations; says nothing about operands never generated.",
  "Trusted: the u128 reference (native % / double-and-add, Fermat inversion), rustc overflow checks; f62 raw images are injected through the unsafe bytes_as_elements within the documented [0,2M) range.",
  "lock-step reference-model monitor over boundary pairs and random operation programs (overflow-checks build, step-bound hook)",
  "DESIGN.md §5 C07")

C("C08",
  "Quadratic and cubic extension arithmetic (all operators, square/cube fast paths, mul_base with every boundary base element as multiplier, inv, conjugate, exp, embedding, byte round trip, slice reinterpretation, conversions incl. ragged / misaligned byte slices) is compared with schoolbook polynomial arithmetic modulo the documented irreducible over the u128 reference field; every coefficient position takes every boundary base element (also as internal image) against every position/boundary of the other operand; algebraic laws of conjugation and inversion are asserted.",
  "Trusted: reference schoolbook arithmetic and the documented irreducibles (f64: x^2-x+2, x^3-x-1; f62: x^2-x-1, x^3+2x+2; f128: x^2-x-1); Frobenius computed as x^p.",
  "reference-model monitor on boundary-positioned and random operands + algebraic-law assertions",
  "DESIGN.md §5 C08")

C("C09",
  "Outputs of evaluate_poly, serial_fft, evaluate_poly_with_offset, interpolate_poly(_with_offset), infer_degree, twiddles, permute_index and of the column-batched LDE builders (ColMatrix/RowMatrix/Segment, segment widths 8/4/1, 1..255 columns) are compared with direct evaluation at explicitly computed domain points (also over StarkDomain::new(air) with a constraint-evaluation domain smaller than the LDE domain, whose accessors and x-coordinate look-ups are checked against their definitions), for sizes 2^1..2^12 (quick) / 2^14 (thorough), base and extension fields, in the serial build and in the concurrent build under 3 and 16 threads.",
  "Trusted: direct evaluation with the library's own field operations (monitored by C07/C08). Above the all-points budget only boundary + sampled points are compared (plus exact inverse-transform identity).",
  "differential monitor against direct polynomial evaluation; serial and concurrent builds",
  "DESIGN.md §5 C09")

C("C20",
  "Each routine of winter_math::polynom and the batch utilities is executed on generated inputs (zero leading/trailing coefficients, b in {1,-1,random}, a in 1..8, repeated roots, zero x-coordinates, zero patterns for batch inversion, lengths around 128/1024/4096 and 0) and its defining identity is asserted with independently written schoolbook code; serial and concurrent builds; three base fields and five extension types.",
  "Trusted: schoolbook reference routines that use the library's field operations (monitored by C07/C08).",
  "identity-checking monitors over generated inputs (serial + concurrent builds)",
  "DESIGN.md §5 C20")

C("C16",
  "Step-set semantics decided by complete enumeration at run time: for trace lengths 8..256 (thorough: ..1024) and three base fields, every exemption count (0 and n/2+2 must be refused), every well-formed single/periodic/sequence assertion and every ordered pair of assertions on a column; divisor zero sets are evaluated on every point of the trace domain and cross-checked against the explicit product at out-of-domain points; the system-built boundary constraint must reproduce each asserted value and reject value+1; overlaps_with must equal set intersection; ill-formed arguments must be refused.",
  "Trusted: the step-set enumeration in the monitor and the library's field operations (C07). Zero set read as numerator=0 and exemptions!=0.",
  "exhaustive run-time enumeration with a set-semantics oracle",
  "DESIGN.md §5 C16")

C("C18",
  "Conjectured security estimate compared with an integer re-implementation of the documented formula on the complete grid (255 query counts x 7 blowups x 33 grinding factors x 3 extension degrees x 30 trace lengths x 3 field sizes x 6 collision-resistance values, ~1.4e8 evaluations per run), with monotonicity to each adjacent grid point; proven estimate sampled (6e4 quick / 3e6 thorough parameter sets) for the four monotonicity directions and against a transcription of the documented bound; single-threaded call histories (same parameters under the six collision resistances in random order with other calls in between) must repeat the first answer; acceptance policy checked at thresholds level-1/level/level+1 and for option sets with and without the proof's options, for all six hashers.",
  "Trusted: the integer formula in the monitor (taken from the documentation). Contexts are decoded from hand-built bytes; the policy is observed at AcceptableOptions::validate (what verify() calls first).",
  "exhaustive grid comparison with reference formula + pairwise monotonicity monitor + policy-semantics oracle",
  "DESIGN.md §5 C18")

C("C11",
  "Blake3/SHA3 wrappers are compared with the blake3/sha3 crates on canonical little-endian bytes (hash at every length 0..300, merge, merge_with_int, hash_elements under base/quadratic/cubic typing and alternative internal representations, three fields); the three Rescue hashers are compared with a textbook sponge in u128 reference arithmetic built from constants pinned in the harness (permutation, single rounds, hash at every length up to 4 rate blocks, hash_elements at every length up to 3 rates, sponge/Jive merges, merge_with_int on the integer classes below/at/above the modulus with pairwise injectivity), with boundary limbs and S-box pre-images of boundary Montgomery images in every state position; overflow checks police the frequency-domain MDS fast path; all six hashers must separate s, s||0^k, s||1 and the empty string.",
  "Trusted: blake3/sha3 crates; the reference sponge and the constants copied at the pinned commit; absorption/padding conventions as documented per module (Jive: overwrite padding and Jive compression).",
  "differential monitor against reference hash implementations + input-separation monitor (overflow-checks build)",
  "DESIGN.md §5 C11")

C("C10",
  "Positive and negative monitors against a naive tree recomputed with the Hasher API: every non-empty subset of positions for trees of depth 1..4 (65,535 subsets at depth 4), every order of every subset at depth <= 3, sampled position sets (1..255 positions, adjacent/cousin/all-left/all-right patterns, shuffled orders) at depths 5..12, six hashers, serial and concurrent tree construction. Honest openings must verify, decompress to the naive paths, re-compress to themselves and survive the node wire format; ~40 mutation classes (each leaf/node replaced, vectors truncated/extended/moved, depth changes incl. >= 64, positions duplicated/permuted/out of range/added, positions added or removed together with a made-up or committed leaf) must each return an error - acceptance or a panic is a violation.",
  "Trusted: the naive tree and the Hasher implementations (C11). A mutant can only be accepted legitimately through a hash collision.",
  "exhaustive (depth<=4) + sampled differential monitor with mutation-based negative oracle",
  "DESIGN.md §5 C10")

C("C19",
  "Random histories (1..64 operations: reseed, draw of base/quadratic/cubic elements, draw_integers with 1..255 values over domains 2^1..2^32 and boundary nonces, check_leading_zeros; seeds of 0..20 elements) are applied in lock-step to the real coin, a second instance and an executable coin model built on the Hasher API; every output is compared, drawn elements are checked canonical, counts/ranges of integers are asserted. Histories differing in exactly one datum must change the next >= 62-bit draw; check_leading_zeros must be side-effect free; the proof-of-work measure must be the trailing-zero count of merge_with_int(seed, nonce), the digest from which the query positions are then drawn. All six hashers with every field they support.",
  "Trusted: the coin model (15 lines) and the hashers (C11). 'Number of earlier draws' is only required to matter where rejection sampling cannot skip (see DESIGN.md false-alarm note).",
  "history + executable-model lock-step monitor, pairwise-history difference oracle",
  "DESIGN.md §5 C19")

C("C13",
  "Operation histories (1..200 operations over all 17 ByteReader operations, lengths biased to buffer/stream boundaries and to usize::MAX) are applied in lock-step to ReadAdapter over a chunking source (1-byte, fixed, straddling 256, random, whole, zero-length reads before the end) and to SliceReader as the executable model on the same 0..2000-byte stream; every value and error is compared, histories continue after errors, and a final drain must deliver exactly the unread rest (exactly-once). ~6e5 histories / 5e7 operations per quick run; ASan and Miri stages in thorough.",
  "Trusted: SliceReader as the model (its own panics are reported too). After a zero-length read before the real end (std::io::Read's EOF signal) adapter errors are not judged; successful returns still must match.",
  "history + executable-model lock-step monitor with conservation check; ASan/Miri on a sample",
  "DESIGN.md §5 C13")

C("C12",
  "Generated values of every serializable type (primitive integers incl. the variable-length size encoding at every 7-bit boundary, options, tuples, arrays, vectors, strings, maps, sets, nested compositions; base/extension field elements incl. boundary and chain-produced representations; digests of all six hashers; ProofOptions over the constructor space; TraceInfo incl. 255 columns, aux segments with 0 random elements, 65535 metadata bytes; Context; Commitments; Queries with 1/255 queries x 1/255 columns; OodFrame with/without Lagrange frame; FriProof with 0..max layers and up to 256 remainder coefficients) (plus long byte payloads, strings and trace descriptions between other length-prefixed values) are encoded and decoded through SliceReader, Cursor and ReadAdapter (random chunking; the reader under test is handed to the decoder directly, consumption is measured by draining) with trailing garbage: decoded == original, bytes consumed == bytes written, and the components' parse() returns the original content. Whole prover-generated proofs are round-tripped in C01.",
  "Trusted: each type's own PartialEq; FRI proofs come from the real FriProver.",
  "round-trip monitor over three reader implementations with exact-consumption accounting",
  "DESIGN.md §5 C12")

C("C05",
  "A library of thirteen prover strategies (among them: honest folding of a far function, remainder interpolated through the queried points after seeing them, remainder plus a multiple of the vanishing polynomial of the queried points, oversized remainder, tampered layer value, folding one layer with a wrong challenge, omitted layer, swapped layers, too-small degree claim, evaluations claimed to the verifier that differ from the committed first layer, rows made up after the queries, a hand-written prover in the partitioned layout, a mis-sized remainder pre-committed with a last layer that matches it over a doubled domain) is run against the stand-alone FRI verifier on random functions, polynomials of degree bound+1..domain-1 and low-degree polynomials corrupted on 1/4..3/4 of the domain, for folding factors 2..16, blowups 2..32, base/quadratic/cubic fields and all hashers, with 100 queries (acceptance probability of honest folding <= 2^-40). Every case must be rejected or fail to parse; an acceptance under honest folding is cross-examined by an independent recomputation of the final consistency condition. This is exploration over a finite strategy library, not a soundness proof.",
  "Trusted: construction of far functions; library FFT (C09) and apply_drp (C15) for building instances. Strategies that need more final positions than remainder coefficients are skipped and counted.",
  "adversarial strategy-library workload with a reject oracle (+ independent recomputation for lucky acceptances)",
  "DESIGN.md §5 C05")

C("C15",
  "Honest FRI proofs for polynomials of degree 0, 1, bound-1, exactly the bound, zero and random are generated for blowups 2..128, folding 2..16, remainder degrees 0..255, polynomial sizes 2^0..2^10 (degree bounds 0 and 1 forced in), position lists with duplicates / collisions after folding / 1..255 positions, eight field-extension-hasher configurations, with the prover instance reused; each must verify directly and after the FriProof byte round trip, in the serial build and in the concurrent build (4 threads). apply_drp<2/4/8/16> is compared with the coefficient-domain definition of folding on direct evaluations; fold_positions, map_positions_to_indexes and num_fri_layers with their closed forms.",
  "Trusted: direct polynomial evaluation with the library field operations; only well-formed schedules are generated.",
  "acceptance monitor over generated honest instances + reference-model comparison of the folding step",
  "DESIGN.md §5 C15")

C("C01",
  "A parametric computation family (1..255 columns, per-column rules next = a*cur^d + b*other (+ periodic) and next = cur*periodic (+ other) with d in 1..blowup+1, periodic columns of independent cycle lengths, 1..n/2+1 exemptions with arbitrary values in the exempt tail, single/periodic/sequence assertions incl. >= 64 values and non-zero first steps, auxiliary segments with 0..3 random elements, Lagrange-kernel column with a GKR stub, degenerate traces) is proven and verified under all 12 field x hasher combinations, three extension degrees and admissible options incl. the boundaries (1/254/255 queries, blowup 2/128, grinding 16, folding 16, remainder degree 0/255). An independent reference validity predicate decides that the trace is valid; then prove must succeed, verify must accept directly and after the Proof byte round trip (three readers), the decoded proof must equal the original, and the security policy must behave end to end. ~2e4 proofs per quick run.",
  "Trusted: the reference validity predicate and trace generator of the harness; release build with overflow checks (debug-only validation inside the prover is not exercised). Coin exhaustion (FailedToDrawFieldElement) is outside the claim and counted.",
  "reference-predicate-driven acceptance monitor over boundary-first + random instance generation",
  "DESIGN.md §5 C01")

C("C02",
  "For shapes of the C01 family (n = 8..64, up to 7 columns, aux segments, all field/hasher/extension combinations) every (column, step) cell of a valid trace is corrupted in turn (+1 or a random value) and proven with unchanged public inputs by the release prover; an independent reference validity predicate decides the expected verdict: still valid (only exempt transitions touched, no asserted cell) -> must be accepted, invalid -> must be rejected. Rejections are counted per step class (first step, rows around the exemption boundary, last step, asserted cells per assertion kind). The honest proof is then verified against perturbed assertion values and perturbed computation descriptions, and under six acceptance policies (thresholds level / level+1 for both estimates, option sets with / without its options). The reference predicate is cross-checked with the library's Trace::validate on every corrupted trace. ~1.5e4 proofs per quick run.",
  "Trusted: reference validity predicate; rejection at the OOD check is probabilistic with failure probability <= 2^-45, statement binding of degenerate traces goes through query positions (options with >= 40 bits of position entropy). A finite corruption set is not a soundness proof.",
  "reference-predicate-driven adversarial monitor: cell-by-cell trace corruption and statement perturbation",
  "DESIGN.md §5 C02")

C("C17",
  "For instances of the C01 family (periodic columns of several cycle lengths, sequence assertions of up to 128 values with zero/non-zero first step, periodic assertions, auxiliary segments, Lagrange kernel, constraint-evaluation blowup below the LDE blowup, every admissible exemption count, eight field/extension types) the real DefaultConstraintEvaluator and CompositionPoly produce sum_i x^(i n) H_i(x) at six random points, one LDE-domain point and one trace-coset point; the definition (transition constraints on naively interpolated trace polynomials over the transition divisor, boundary terms with interpolated assertion values over their divisors, Lagrange-kernel terms) is evaluated independently and must be equal. On every third instance the coefficient-to-constraint assignment is discovered with one-hot coefficient vectors and must be a bijection.",
  "Trusted: naive interpolation via polynom::interpolate (C20) and field ops (C07/C08); Air::evaluate_transition of the family is the description. The verifier side is pinned by C01 acceptance of the same instances.",
  "definition oracle at random points + one-hot coefficient discovery",
  "DESIGN.md §5 C17")

C("C04",
  "The public coin of the real prover and verifier is replaced (through the RandomCoin type parameter) by a recording coin that logs every new/reseed/draw/check_leading_zeros/draw_integers with its data. For every proof of a C01-family shape (single and multi segment, Lagrange kernel, 0..max FRI layers, grinding 0..16, three extension degrees, 12 field x hasher combinations) an offline checker verifies both logs against the protocol's trace specification generated from the shape, compares every absorbed datum with the value recomputed from the proof (commitments, hashes of the OOD trace frame and OOD evaluations, nonce, seed = context || public inputs), replays the log through the executable coin model, perturbs single absorbed data and requires every later field-element challenge to change, and requires prover and verifier logs to be identical up to the verifier's unused extra FRI challenge and its proof-of-work check; when the verifier rejects, its operations up to that point are still compared with the prover's.",
  "Trusted: the trace specification written from the protocol description; the coin model (C19). Proof-of-work search calls are counted only. Single-threaded build.",
  "recorded event log + offline trace-specification checker + model replay",
  "DESIGN.md §5 C04")

C("C03",
  "Seed proofs of small C01-family configurations (12 field x hasher combinations, three extension degrees, 0..max FRI layers, single/multi segment, Lagrange kernel, >= 40 bits of query-position entropy) are mutated: every single-bit flip of the serialized proof, every scalar/length field and every length-prefixed component located by a wire-layout parser (boundary values; grown/shrunk by a byte or a digest with all enclosing lengths fixed up; emptied), FRI layers removed/duplicated/swapped, query records swapped, an extra or missing digest inside each Merkle node vector, truncation at every offset, trailing garbage, semantic edits through the public fields (nonce, unique-query count, gkr_proof, query sets), and the position-aware substitutions remainder + c*prod(x - x_q) and remainder mod prod(x - x_q) (the interpolant through the queried points) over the final query points read from the verifier's coin. A mutant must fail to parse, decode to the same content (or differ only by digest re-encoding / partition count: outside the claim), or be rejected. ~3e5 mutants per quick run.",
  "Trusted: Proof's PartialEq for 'same decoded content'; hash bindings (accidental acceptance needs a collision). Panics are counted and attributed to C06.",
  "mutation-based negative oracle over accepted proofs (raw, structured, semantic, position-aware)",
  "DESIGN.md §5 C03")

C("C06",
  "Mutants of accepted proofs (every single-bit flip and byte substitution, every scalar/length field at boundary values, components grown/shrunk/emptied with lengths fixed up, FRI layer and query surgery, Merkle node-vector edits, truncation at every offset, trailing garbage, valid prefix + random bytes, structurally valid proofs with inconsistent components built through the public fields) are parsed with Proof::from_bytes and, when they parse, FRI schedules relabelled together with layer count and layer commitments, opened tables blown up to 255..1024 rows, verified against right and perturbed public inputs under all three acceptance policies. Worker processes announce each case before running it, so aborts are attributed to their input; a panic hook records site + message signatures; a counting global allocator bounds the largest single request (max(16 MiB, 64 x input)) and the peak; builds: release with overflow checks and the repository's plain release semantics. ~3e5 inputs per quick run. Six panic sites that need an API change (infallible Air::new fed with untrusted trace info/options) are recorded as known findings by exact signature.",
  "Trusted: the panic hook / allocator / process-isolation monitors of the harness. The AIR of the harness family is written defensively, so that remaining panics are in library code.",
  "fault-attributing fuzz-style workload under panic, overflow, allocation and process-death monitors",
  "DESIGN.md §5 C06")

C("C14",
  "The same driver source is built without and with the `concurrent` feature. A dump of ~460 deterministic results (FFT/iFFT/LDE of 512..8192 points over four field types, polynomials of 2..256 coefficients extended by blowups 8..128, twiddles, power series, batch inversion with zeros, add_in_place, mul_acc, transpose_slice, apply_drp, hash_values, Merkle trees of 512..16384 leaves, row/column-matrix LDE of short-wide (254/255 columns x 16..64 rows, extension columns) and long-narrow matrices with their row commitments, and twelve full proofs (three with constraint-evaluation domains of 8192/16384 rows whose main and auxiliary rules read periodic columns of cycle n, n/4 and 8) whose trace/constraint/FRI-layer commitments, OOD frame and context are dumped and which are then verified) is produced by the serial build and by the concurrent build under 13 pool sizes 1..64 and 3 oversubscribed CPU pinnings (repeated in thorough); every line must equal the serial one and every concurrent proof must verify. The workloads also run under valgrind memcheck (32 threads, quick; 8 threads thorough), ThreadSanitizer with -Zbuild-std (3/8/32 threads, thorough) and Miri (thorough), whose reports are violations.",
  "Only the schedules produced by these pool sizes, pinnings and repetitions are observed; results are compared through 64-bit hashes; Miri runs without the aliasing model (dependency noise).",
  "differential dump comparison serial vs concurrent builds under a thread-pool sweep + memcheck / TSan / Miri",
  "DESIGN.md §5 C14")
