NOTES = ("Runtime monitoring and sanitizers only. Every verdict is 'held on the executions observed'; evidence files list what the "
         "monitors saw. Exit 3 = inconclusive (never folded into pass or violation). Known findings: /verif/known_findings.txt.")
NOT_APPLICABLE = {}

C("C07",
  "Every public base-field operation is executed on boundary-directed operands (taken both as residues and as internal Montgomery images), "
  "on all ordered pairs of that boundary set and inside random programs of up to 12 operations, with a u128 reference in lock-step; value, "
  "==, serialized bytes and the documented representation range are asserted on every intermediate; inversion loops are step-bounded by a hook. "
  "Runtime oracle over ~10^6 (quick) to ~10^8 (thorough) operations; says nothing about operands never generated.",
  "Trusted: the u128 reference (native % / double-and-add, Fermat inversion), rustc overflow checks; f62 raw images are injected through the unsafe bytes_as_elements within the documented [0,2M) range.",
  "lock-step reference-model monitor over boundary pairs and random operation programs (overflow-checks build, step-bound hook)",
  "DESIGN.md §5 C07")
