#!/usr/bin/env python3
"""Generates /verif/MANIFEST.json from the table below (single source of truth for the interface)."""
import json, os, subprocess
V = os.path.dirname(os.path.dirname(os.path.abspath(__file__)))

def hook_commits():
    try:
        out = subprocess.run(["git", "-C", "/repo", "log", "--format=%h %s"], capture_output=True, text=True).stdout
        return [l.split()[0] for l in out.splitlines() if l.split(" ", 1)[1].startswith("verif-hooks:")]
    except Exception:
        return []

CHECKS = {}
def C(pid, text, note, technique, design):
    CHECKS[pid] = dict(text=text, note=note, technique=technique, design=design)

exec(open(os.path.join(V, "tools", "manifest_table.py")).read())

props = [json.loads(l)["id"] for l in open(os.path.join(V, "properties.jsonl"))]
checks = []
na = []
for pid in props:
    if pid in CHECKS:
        c = CHECKS[pid]
        checks.append({
            "property_id": pid,
            "quick_cmd": f"./check {pid} quick",
            "thorough_cmd": f"./check {pid} thorough",
            "evidence_file": f"/verif/evidence/{pid}.json",
            "replay_cmd_template": f"./check {pid} --replay {{path}}",
            "engine": "wfv",
            "level_claimed": {"category": "exploration", "text": c["text"], "design_ref": c["design"]},
            "level_note": c["note"],
            "technique": c["technique"],
        })
    else:
        na.append({"property_id": pid, "reason": NOT_APPLICABLE.get(pid, "check not built yet in this round; no claim is made")})

m = {
    "version": 1,
    "setup_cmd": "./check setup",
    "hooks": {
        "guard": "cargo feature verif-hooks (winter-math), off by default",
        "enable": "the harness crate /verif/harness depends on /repo's crates by path and is built with --features hooks, which turns on winter-math/verif-hooks",
        "baseline_off_cmd": "cd /repo && cargo test --workspace --no-fail-fast --offline",
        "source_commits": hook_commits(),
        "add_only": True,
    },
    "engines": [{
        "name": "wfv",
        "path": "/verif/harness",
        "serves_properties": sorted(CHECKS),
        "kind_free_text": "Rust monitor drivers (one binary per property) linked against /repo's crates by path and rebuilt by every check; reference models, lock-step history comparison, event-log checkers; sanitizer flavours (overflow checks, ASan, TSan, Miri, valgrind memcheck) orchestrated by ./check",
    }],
    "checks": checks,
    "not_applicable": na,
    "notes": NOTES,
}
json.dump(m, open(os.path.join(V, "MANIFEST.json"), "w"), indent=1)
print("claimed:", sorted(CHECKS), "not claimed:", [x["property_id"] for x in na])
