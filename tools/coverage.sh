#!/bin/bash
# usage: tools/coverage.sh [Cxx ...]        (default: all properties)
# Runs the quick stages of the given properties in coverage mode (nightly, -Cinstrument-coverage, own target dirs,
# own evidence dir - the registered evidence is not touched) and writes, per property,
#   coverage/<Cxx>.txt   line/function coverage of the property's anchor files under its quick workload
#   coverage/<Cxx>.uncovered.txt   the source lines of those files that no quick stage executed
# This is an aid for sizing workloads ("what did the monitors actually reach"); it is not a check.
set -u
cd /verif
PROPS=${@:-$(seq -f "C%02g" 1 20)}
BIN=$(rustc +nightly --print sysroot)/lib/rustlib/x86_64-unknown-linux-gnu/bin
COVD=/verif/harness/target_cov
mkdir -p $COVD/prof coverage
for p in $PROPS; do
  rm -f $COVD/prof/$p-*.profraw
  [ -n "${COV_REPORT_ONLY:-}" ] || LLVM_PROFILE_FILE=/verif/harness/target_cov/prof/build-%p.profraw VERIF_COV=1 VERIF_NO_REQUIRE=1 VERIF_SCALE=${COV_SCALE:-0.1} VERIF_THREADS=${COV_THREADS:-4} VERIF_EVIDENCE_DIR=$COVD/evid ./check $p quick 2>&1 | grep -E "^\[stage\]|VIOLATION|HARNESS|INCONCLUSIVE"
  if [ -z "${COV_REPORT_ONLY:-}" ]; then
    ls $COVD/prof/$p-*.profraw >/dev/null 2>&1 || { echo "no profiles for $p"; continue; }
    $BIN/llvm-profdata merge -sparse $COVD/prof/$p-*.profraw -o $COVD/$p.profdata || continue
    rm -f $COVD/prof/$p-*.profraw
  fi
  b=$(echo $p | tr 'C' 'c')
  objs=""
  for d in rel relnoc conc; do
    for prof in release relnoc; do
      f=/verif/harness/target_cov_$d/x86_64-unknown-linux-gnu/$prof/$b; [ -x $f ] || f=/verif/harness/target_cov_$d/$prof/$b
      [ -x $f ] && { if [ -z "$objs" ]; then objs="$f"; else objs="$objs -object $f"; fi; }
    done
  done
  files=$(python3 - $p <<'PY'
import json,sys
for l in open('/verif/properties.jsonl'):
    q=json.loads(l)
    if q['id']==sys.argv[1]: print(' '.join('/repo/'+f for f in q['anchors']['files']))
PY
)
  $BIN/llvm-cov report $objs -instr-profile=$COVD/$p.profdata $files 2>/dev/null \
    | awk '$1 !~ /^-+$/ && NR>1 {print $1, "regions", $4, "functions", $7, "lines", $10}' > coverage/$p.txt
  $BIN/llvm-cov show $objs -instr-profile=$COVD/$p.profdata $files --show-line-counts-or-regions=false 2>/dev/null \
    | grep -E "^/repo/.*:$|^ +[0-9]+\| +0\|" | sed 's#^/repo/##' > coverage/$p.uncovered.txt
  echo "== $p"; tail -n 1 coverage/$p.txt 
done
