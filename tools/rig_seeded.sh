#!/bin/bash
# usage: tools/rig_seeded.sh <patch.diff> <tier> <Cxx> [<Cxx> ...]
# Like try_seeded.sh, but never touches /repo: runs the checks of a scratch copy of /verif against a scratch
# copy of /repo (under /tmp/rig) with the patch applied. Used while long runs in /verif must not see a patched /repo.
set -u
PATCH=$(readlink -f "$1"); TIER=$2; shift 2
RIG=${RIG:-/tmp/rig}
mkdir -p $RIG
if [ ! -d $RIG/repo/.git ]; then git clone -q /repo $RIG/repo || exit 2; fi
git -C $RIG/repo fetch -q origin && git -C $RIG/repo reset -q --hard origin/main && git -C $RIG/repo clean -fdq
cp /repo/Cargo.lock $RIG/repo/Cargo.lock
mkdir -p $RIG/verif
rsync -a --delete --exclude 'target*' --exclude evidence --exclude seeded --exclude .git /verif/ $RIG/verif/
mkdir -p $RIG/verif/evidence
sed -i "s#\"/repo/#\"$RIG/repo/#" $RIG/verif/harness/Cargo.toml
[ -s "$PATCH" ] && { git -C $RIG/repo apply "$PATCH" || { echo "patch does not apply"; exit 2; } }
cd $RIG/verif
export VERIF_REPO=$RIG/repo
for c in "$@"; do
  out=$(./check "$c" "$TIER" 2>&1)
  code=$?
  echo "== $c exit=$code"
  echo "$out" | grep -E "^VIOLATION|^  signature=|^  sanitizer=|^INCONCLUSIVE|^HARNESS" | cut -c1-330 | head -12
done
git -C $RIG/repo reset -q --hard origin/main
