#!/bin/bash
# usage: tools/sweep_seeded.sh [rig|repo]   re-runs every seeded change against the quick check of its own property
# (rig: scratch copies under /tmp/rig, default; repo: applies to /repo and restores). Writes seeded/RESULTS.txt.
# optional: SWEEP_PART=k/n runs every n-th change starting at k (parallel sweeps with RIG=/tmp/rig<k>), writing
# seeded/RESULTS.part<k>; merge with: sort -V seeded/RESULTS.part* > ...
MODE=${1:-rig}
cd /verif
OUT=seeded/RESULTS.txt
PART=${SWEEP_PART:-}
if [ -n "$PART" ]; then K=${PART%/*}; N=${PART#*/}; OUT=seeded/RESULTS.part$K; fi
echo "# seeded change -> quick check of its property ($MODE mode, $(git -C /repo log --format=%h -1) + patch); exit 1 = reported" > $OUT.new
idx=0
for d in $(ls -d seeded/C*-*/ | sort -V); do
  idx=$((idx+1))
  if [ -n "$PART" ] && [ $(( (idx - 1) % N )) -ne $(( K - 1 )) ]; then continue; fi
  id=$(basename $d); prop=${id%%-*}
  if [ "$MODE" = rig ]; then r=$(tools/rig_seeded.sh $d/patch.diff quick $prop 2>&1); else r=$(tools/try_seeded.sh $d/patch.diff quick $prop 2>&1); fi
  code=$(echo "$r" | grep -E "^== $prop exit=" | sed 's/.*exit=//')
  sig=$(echo "$r" | grep -E "^  signature=" | head -1 | sed 's/ occurrences.*//' | cut -c1-150)
  echo "$id exit=$code $sig" | tee -a $OUT.new
done
mv $OUT.new $OUT
