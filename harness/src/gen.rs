//! Generators and small generic reference routines over library field elements (the field
//! operations themselves are monitored by C07/C08; the routines here are written independently
//! of winter-math's polynomial/FFT code).
use winter_math::FieldElement;

use crate::{fields::Fld, prng::Rng};

/// element of E (base or extension over B) with coefficients from the generator
pub fn rand_el<B: Fld, E: FieldElement<BaseField = B>>(rng: &mut Rng) -> E {
    let mut c = [B::ZERO; 3];
    for x in c.iter_mut().take(E::EXTENSION_DEGREE) {
        *x = match rng.below(16) {
            0 => B::ZERO,
            1 => B::ONE,
            2 => -B::ONE,
            _ => B::from_res(rng.u128() % B::FP.p),
        };
    }
    E::slice_from_base_elements(&c[..E::EXTENSION_DEGREE])[0]
}

pub fn rand_nonzero<B: Fld, E: FieldElement<BaseField = B>>(rng: &mut Rng) -> E {
    loop {
        let e = rand_el::<B, E>(rng);
        if e != E::ZERO {
            return e;
        }
    }
}

pub fn rand_vec<B: Fld, E: FieldElement<BaseField = B>>(rng: &mut Rng, n: usize) -> Vec<E> {
    (0..n).map(|_| rand_el::<B, E>(rng)).collect()
}

/// n distinct elements
pub fn distinct_points<B: Fld, E: FieldElement<BaseField = B>>(rng: &mut Rng, n: usize) -> Vec<E> {
    let mut v: Vec<E> = Vec::with_capacity(n);
    // mix of small consecutive values and random ones
    let mut k = 0u32;
    while v.len() < n {
        let c = if rng.bool() {
            k += 1;
            E::from(k)
        } else {
            rand_el::<B, E>(rng)
        };
        if !v.contains(&c) {
            v.push(c);
        }
    }
    v
}

pub fn res_vec<B: Fld, E: FieldElement<BaseField = B>>(e: &E) -> Vec<u128> {
    E::slice_as_base_elements(core::slice::from_ref(e)).iter().map(|c| c.res()).collect()
}

pub fn show<B: Fld, E: FieldElement<BaseField = B>>(e: &E) -> String {
    let v = res_vec::<B, E>(e);
    if v.len() == 1 {
        v[0].to_string()
    } else {
        format!("({})", v.iter().map(|x| x.to_string()).collect::<Vec<_>>().join(","))
    }
}

pub fn show_vec<B: Fld, E: FieldElement<BaseField = B>>(v: &[E], max: usize) -> String {
    let mut s: Vec<String> = v.iter().take(max).map(|e| show::<B, E>(e)).collect();
    if v.len() > max {
        s.push(format!("..{} more", v.len() - max));
    }
    format!("[{}]", s.join(" "))
}

pub fn type_name<B: Fld, E: FieldElement<BaseField = B>>() -> String {
    if E::EXTENSION_DEGREE == 1 {
        B::NAME.to_string()
    } else {
        format!("{}^{}", B::NAME, E::EXTENSION_DEGREE)
    }
}

// schoolbook reference polynomials (coefficients low to high)
// ------------------------------------------------------------------------------------------------
pub fn p_trim<E: FieldElement>(p: &[E]) -> Vec<E> {
    let mut n = p.len();
    while n > 0 && p[n - 1] == E::ZERO {
        n -= 1;
    }
    p[..n].to_vec()
}
/// degree with deg(0) = -1
pub fn p_deg<E: FieldElement>(p: &[E]) -> isize {
    p_trim(p).len() as isize - 1
}
pub fn p_add<E: FieldElement>(a: &[E], b: &[E]) -> Vec<E> {
    let n = a.len().max(b.len());
    (0..n).map(|i| a.get(i).copied().unwrap_or(E::ZERO) + b.get(i).copied().unwrap_or(E::ZERO)).collect()
}
pub fn p_sub<E: FieldElement>(a: &[E], b: &[E]) -> Vec<E> {
    let n = a.len().max(b.len());
    (0..n).map(|i| a.get(i).copied().unwrap_or(E::ZERO) - b.get(i).copied().unwrap_or(E::ZERO)).collect()
}
pub fn p_mul<E: FieldElement>(a: &[E], b: &[E]) -> Vec<E> {
    if a.is_empty() || b.is_empty() {
        return vec![];
    }
    let mut r = vec![E::ZERO; a.len() + b.len() - 1];
    for (i, x) in a.iter().enumerate() {
        for (j, y) in b.iter().enumerate() {
            r[i + j] += *x * *y;
        }
    }
    r
}
/// sum c_i x^i with explicit powers (deliberately not Horner)
pub fn p_eval<C: FieldElement, E: FieldElement + From<C>>(p: &[C], x: E) -> E {
    let mut pw = E::ONE;
    let mut acc = E::ZERO;
    for c in p {
        acc += E::from(*c) * pw;
        pw *= x;
    }
    acc
}
pub fn p_eq<E: FieldElement>(a: &[E], b: &[E]) -> bool {
    p_trim(a) == p_trim(b)
}

/// x^e by square-and-multiply (independent of the element type's integer type)
pub fn pow<E: FieldElement>(x: E, mut e: u128) -> E {
    let mut b = x;
    let mut r = E::ONE;
    while e > 0 {
        if e & 1 == 1 {
            r *= b;
        }
        b = b.square();
        e >>= 1;
    }
    r
}
