//! Run context, verdict discipline, known-findings protocol and evidence writer.
use std::{
    cell::RefCell,
    collections::{BTreeMap, HashSet},
    panic::{self, AssertUnwindSafe},
    path::PathBuf,
    sync::{
        atomic::{AtomicU64, Ordering},
        Mutex, Once,
    },
    time::Instant,
};

use crate::{
    json::J,
    prng::{fnv, Rng},
};

#[derive(Clone, Copy, PartialEq, Eq, Debug)]
pub enum Tier {
    Quick,
    Thorough,
}

#[derive(Default)]
pub struct State {
    pub evals: u64,
    pub distinct: HashSet<u64>,
    pub counters: BTreeMap<String, u64>,
    pub samples: Vec<J>,
    sample_classes: BTreeMap<String, u32>,
    pub viol: BTreeMap<String, (u64, J)>,
    pub info: Vec<String>,
    pub inconclusive: Vec<String>,
}

impl State {
    pub fn new() -> Self {
        Self::default()
    }
    /// one executed case; `hash` identifies the case content, `nontrivial` is the property's rule
    pub fn case(&mut self, hash: u64, nontrivial: bool) {
        self.evals += 1;
        if nontrivial {
            self.distinct.insert(hash);
        }
    }
    pub fn count(&mut self, key: &str) {
        *self.counters.entry(key.to_string()).or_insert(0) += 1;
    }
    pub fn add(&mut self, key: &str, n: u64) {
        *self.counters.entry(key.to_string()).or_insert(0) += n;
    }
    pub fn get(&self, key: &str) -> u64 {
        self.counters.get(key).copied().unwrap_or(0)
    }
    /// keep up to 2 samples per class
    pub fn sample(&mut self, class: &str, f: impl FnOnce() -> J) {
        let c = self.sample_classes.entry(class.to_string()).or_insert(0);
        if *c < 2 && self.samples.len() < 60 {
            *c += 1;
            self.samples.push(J::obj(vec![("class", J::s(class)), ("case", f())]));
        }
    }
    pub fn wants_sample(&self, class: &str) -> bool {
        self.sample_classes.get(class).copied().unwrap_or(0) < 2 && self.samples.len() < 60
    }
    pub fn violation(&mut self, sig: impl Into<String>, detail: J) {
        let sig: String = sig.into().chars().map(|c| if c.is_whitespace() { '_' } else { c }).collect();
        let e = self.viol.entry(sig).or_insert((0, detail));
        e.0 += 1;
    }
    pub fn info(&mut self, s: impl Into<String>) {
        if self.info.len() < 200 {
            self.info.push(s.into());
        }
    }
    pub fn merge(&mut self, o: State) {
        self.evals += o.evals;
        self.distinct.extend(o.distinct);
        for (k, v) in o.counters {
            *self.counters.entry(k).or_insert(0) += v;
        }
        for s in o.samples {
            if let J::O(ref kv) = s {
                if let Some((_, J::S(class))) = kv.first() {
                    let c = self.sample_classes.entry(class.clone()).or_insert(0);
                    if *c < 2 && self.samples.len() < 60 {
                        *c += 1;
                        self.samples.push(s.clone());
                    }
                }
            }
        }
        for (k, (n, d)) in o.viol {
            let e = self.viol.entry(k).or_insert((0, d));
            e.0 += n;
        }
        for i in o.info {
            self.info(i);
        }
        self.inconclusive.extend(o.inconclusive);
    }
}

pub struct Run {
    pub prop: String,
    pub tier: Tier,
    pub seed: u64,
    pub verif_dir: PathBuf,
    pub start: Instant,
    known: Vec<(String, String)>, // (sig, description) for this property
    pub st: Mutex<State>,
}

pub struct Finish {
    pub rule: String,
    pub assumptions: Vec<String>,
    pub exhaustive: bool,
    /// (counter, minimum): a run that observed fewer events of a class is inconclusive
    pub require: Vec<(String, u64)>,
    pub extra: Vec<(String, J)>,
}

impl Run {
    pub fn start(prop: &str) -> Run {
        install_panic_hook();
        let args: Vec<String> = std::env::args().collect();
        let mut tier = match std::env::var("VERIF_TIER").as_deref() {
            Ok("thorough") => Tier::Thorough,
            _ => Tier::Quick,
        };
        for a in &args[1..] {
            match a.as_str() {
                "quick" => tier = Tier::Quick,
                "thorough" => tier = Tier::Thorough,
                _ => {},
            }
        }
        let seed = std::env::var("VERIF_SEED").ok().and_then(|s| s.trim().parse::<i128>().ok()).map(|v| v as u64).unwrap_or(1);
        let verif_dir = PathBuf::from(std::env::var("VERIF_DIR").unwrap_or_else(|_| "/verif".to_string()));
        let mut known = Vec::new();
        if let Ok(txt) = std::fs::read_to_string(verif_dir.join("known_findings.txt")) {
            for line in txt.lines() {
                let line = line.trim();
                if let Some(rest) = line.strip_prefix("known:") {
                    let mut it = rest.trim().splitn(3, ' ');
                    let p = it.next().unwrap_or("");
                    let s = it.next().unwrap_or("");
                    let d = it.next().unwrap_or("");
                    if p == format!("property={prop}") {
                        if let Some(sig) = s.strip_prefix("sig=") {
                            known.push((sig.to_string(), d.to_string()));
                        }
                    }
                }
            }
        }
        Run {
            prop: prop.to_string(),
            tier,
            seed,
            verif_dir,
            start: Instant::now(),
            known,
            st: Mutex::new(State::new()),
        }
    }
    pub fn quick(&self) -> bool {
        self.tier == Tier::Quick
    }
    /// pick a workload size by tier
    pub fn size(&self, quick: u64, thorough: u64) -> u64 {
        let scale = std::env::var("VERIF_SCALE").ok().and_then(|s| s.parse::<f64>().ok()).unwrap_or(1.0);
        let v = if self.quick() { quick } else { thorough };
        ((v as f64) * scale).max(1.0) as u64
    }
    pub fn arg(&self, name: &str) -> Option<String> {
        let args: Vec<String> = std::env::args().collect();
        let key = format!("--{name}=");
        args.iter().find_map(|a| a.strip_prefix(&key).map(|s| s.to_string()))
    }
    pub fn rng(&self, tag: &str, idx: u64) -> Rng {
        Rng::derive(self.seed, &format!("{}/{}", self.prop, tag), idx)
    }
    pub fn merge(&self, s: State) {
        self.st.lock().unwrap().merge(s);
    }
    /// value of a counter merged so far (between workloads)
    pub fn counter(&self, key: &str) -> u64 {
        self.st.lock().unwrap().get(key)
    }
    pub fn threads() -> usize {
        std::env::var("VERIF_THREADS").ok().and_then(|s| s.parse().ok()).unwrap_or_else(|| {
            std::thread::available_parallelism().map(|n| n.get()).unwrap_or(4)
        })
    }
    /// Runs `n` cases over the worker pool. Each case gets its own generator and the worker's
    /// local state; a panic escaping the case closure is recorded as a violation with the panic
    /// signature (the closure catches the panics its own oracle wants to classify).
    pub fn par<F>(&self, tag: &str, n: u64, f: F)
    where
        F: Fn(u64, &mut Rng, &mut State) + Sync,
    {
        let next = AtomicU64::new(0);
        let nt = Self::threads().min(n.max(1) as usize).max(1);
        std::thread::scope(|sc| {
            for _ in 0..nt {
                sc.spawn(|| {
                    let mut local = State::new();
                    loop {
                        let i = next.fetch_add(1, Ordering::Relaxed);
                        if i >= n {
                            break;
                        }
                        let mut rng = self.rng(tag, i);
                        let r = catch(|| f(i, &mut rng, &mut local));
                        if let Err(p) = r {
                            local.violation(
                                format!("panic:{}", p.sig),
                                J::obj(vec![
                                    ("tag", J::s(tag)),
                                    ("case", J::i(i)),
                                    ("panic", J::s(&p.msg)),
                                    ("at", J::s(&p.loc)),
                                ]),
                            );
                        }
                    }
                    self.merge(local);
                });
            }
        });
    }
    /// single-threaded variant (used by sanitizer/Miri stages)
    pub fn seq<F>(&self, tag: &str, n: u64, mut f: F)
    where
        F: FnMut(u64, &mut Rng, &mut State),
    {
        let mut local = State::new();
        for i in 0..n {
            let mut rng = self.rng(tag, i);
            let r = catch(AssertUnwindSafe(|| f(i, &mut rng, &mut local)));
            if let Err(p) = r {
                local.violation(
                    format!("panic:{}", p.sig),
                    J::obj(vec![("tag", J::s(tag)), ("case", J::i(i)), ("panic", J::s(&p.msg)), ("at", J::s(&p.loc))]),
                );
            }
        }
        self.merge(local);
    }

    pub fn finish(self, fin: Finish) -> ! {
        let wall = self.start.elapsed().as_secs_f64();
        let mut st = self.st.into_inner().unwrap();
        let tier = if self.tier == Tier::Quick { "quick" } else { "thorough" };
        let no_require = std::env::var("VERIF_NO_REQUIRE").is_ok();
        for (k, min) in fin.require.iter().filter(|_| !no_require) {
            let have = st.get(k);
            if have < *min {
                st.inconclusive.push(format!("too few events of class '{k}': {have} < {min}"));
            }
        }
        if st.evals == 0 {
            st.inconclusive.push("no case executed".to_string());
        }
        // known findings vs violations
        let replay_dir = self.verif_dir.join("evidence").join("replay");
        let mut nviol = 0u64;
        let mut known_seen: Vec<J> = Vec::new();
        let mut viol_json: Vec<J> = Vec::new();
        for (sig, (count, detail)) in &st.viol {
            if let Some((_, desc)) = self.known.iter().find(|(s, _)| s == sig) {
                println!("KNOWN-FINDING: property={} {} [sig={} seen={}]", self.prop, desc, sig, count);
                known_seen.push(J::obj(vec![("sig", J::s(sig)), ("count", J::i(*count)), ("what", J::s(desc))]));
            } else {
                nviol += 1;
                let _ = std::fs::create_dir_all(&replay_dir);
                let path = replay_dir.join(format!("{}-{:016x}.json", self.prop, fnv(sig.as_bytes())));
                let rj = J::obj(vec![
                    ("property_id", J::s(&self.prop)),
                    ("tier", J::s(tier)),
                    ("seed", J::i(self.seed)),
                    ("signature", J::s(sig)),
                    ("occurrences", J::i(*count)),
                    ("first_witness", detail.clone()),
                    ("replay", J::s(format!("VERIF_SEED={} ./check {} {}", self.seed, self.prop, tier))),
                ]);
                let _ = std::fs::write(&path, rj.to_string());
                if nviol <= 25 {
                    println!("VIOLATION property={} replay={}", self.prop, path.display());
                    println!("  signature={} occurrences={} witness={}", sig, count, truncate(&detail.to_string(), 600));
                }
                viol_json.push(J::obj(vec![("sig", J::s(sig)), ("count", J::i(*count))]));
            }
        }
        for i in &st.info {
            println!("INFO {}", i);
        }
        let mut cov = vec![
            ("evaluations".to_string(), J::i(st.evals)),
            ("distinct_nontrivial".to_string(), J::i(st.distinct.len() as u64)),
            ("rule".to_string(), J::s(&fin.rule)),
            ("samples".to_string(), J::A(st.samples.clone())),
            ("exhaustive".to_string(), J::B(fin.exhaustive)),
            ("observed".to_string(), J::map(&st.counters)),
            ("known_findings_seen".to_string(), J::A(known_seen)),
            ("violation_signatures".to_string(), J::A(viol_json)),
            ("inconclusive".to_string(), J::arr_s(&st.inconclusive)),
            ("info".to_string(), J::arr_s(&st.info)),
        ];
        for (k, v) in fin.extra {
            cov.push((k, v));
        }
        let ev = J::O(vec![
            ("property_id".to_string(), J::s(&self.prop)),
            ("tier".to_string(), J::s(tier)),
            ("seed".to_string(), J::I(self.seed as i64 as i128)),
            ("level".to_string(), J::s("exploration")),
            ("coverage".to_string(), J::O(cov)),
            ("assumptions".to_string(), J::arr_s(&fin.assumptions)),
            ("wall_s".to_string(), J::F(wall)),
            ("violations".to_string(), J::i(nviol)),
        ]);
        let out = std::env::var("VERIF_EVIDENCE_OUT")
            .map(PathBuf::from)
            .unwrap_or_else(|_| self.verif_dir.join("evidence").join(format!("{}.json", self.prop)));
        if let Some(p) = out.parent() {
            let _ = std::fs::create_dir_all(p);
        }
        std::fs::write(&out, ev.to_string()).expect("cannot write evidence");
        println!(
            "SUMMARY property={} tier={} seed={} evaluations={} distinct_nontrivial={} violations={} wall_s={:.1}",
            self.prop,
            tier,
            self.seed,
            st.evals,
            st.distinct.len(),
            nviol,
            wall
        );
        for (k, v) in &st.counters {
            println!("  observed {k} = {v}");
        }
        if nviol > 0 {
            std::process::exit(1);
        }
        if !st.inconclusive.is_empty() {
            for i in &st.inconclusive {
                println!("INCONCLUSIVE property={} {}", self.prop, i);
            }
            std::process::exit(3);
        }
        std::process::exit(0);
    }
}

/// Does an error / panic message report that the public coin ran out of rejection-sampling attempts (its documented
/// limit of 1000 per draw)? Only the cubic extension of the 62-bit field has a noticeable chance of this (about
/// 1.4e-7 per draw); callers decide from the configuration whether the event is outside their claim.
pub fn is_coin_exhaustion(msg: &str) -> bool {
    msg.contains("FailedToDrawFieldElement") || msg.contains("failed to draw") || msg.contains("Failed to draw")
}

pub fn truncate(s: &str, n: usize) -> String {
    if s.len() <= n {
        s.to_string()
    } else {
        let mut e = n;
        while !s.is_char_boundary(e) {
            e -= 1;
        }
        format!("{}…", &s[..e])
    }
}

// PANIC CAPTURE
// ================================================================================================

#[derive(Clone, Debug, Default)]
pub struct PanicInfo {
    pub loc: String,
    pub msg: String,
    /// stable signature: repo-relative file or function + normalised message prefix
    pub sig: String,
}

thread_local! {
    static LAST_PANIC: RefCell<Option<PanicInfo>> = const { RefCell::new(None) };
    static QUIET: RefCell<bool> = const { RefCell::new(true) };
}
static HOOK: Once = Once::new();
static SIG_CACHE: Mutex<BTreeMap<String, String>> = Mutex::new(BTreeMap::new());

fn norm_msg(m: &str) -> String {
    // digits -> '#', parenthesised / bracketed details dropped, first 90 chars kept, so that
    // value-dependent messages share a signature
    let mut out = String::new();
    let mut last_hash = false;
    let mut depth = 0i32;
    for c in m.chars() {
        if c == '(' || c == '[' {
            depth += 1;
            continue;
        }
        if c == ')' || c == ']' {
            depth = (depth - 1).max(0);
            continue;
        }
        if depth > 0 {
            continue;
        }
        if c.is_ascii_digit() {
            if !last_hash {
                out.push('#');
            }
            last_hash = true;
        } else {
            last_hash = false;
            out.push(if c.is_whitespace() { '_' } else { c });
        }
        if out.len() >= 90 {
            break;
        }
    }
    out
}

/// source root of the code under test ("/repo/" unless VERIF_REPO points at a scratch copy)
fn repo_root() -> String {
    format!("{}/", std::env::var("VERIF_REPO").unwrap_or_else(|_| "/repo".to_string()).trim_end_matches('/'))
}

fn repo_frame() -> Option<String> {
    let bt = std::backtrace::Backtrace::force_capture().to_string();
    let lines: Vec<&str> = bt.lines().collect();
    for (i, l) in lines.iter().enumerate() {
        let t = l.trim();
        if let Some(rest) = t.strip_prefix("at ") {
            let root = repo_root();
            if rest.starts_with(&root) || rest.contains(&root) && !rest.contains("/rustc/") {
                // symbol on the preceding line: "  12: winter_air::proof::..."
                let sym = if i > 0 { lines[i - 1].trim() } else { "" };
                let sym = sym.split_once(": ").map(|x| x.1).unwrap_or(sym);
                let file = rest.rsplitn(3, ':').last().unwrap_or(rest);
                let file = file.split(root.as_str()).last().unwrap_or(file);
                return Some(format!("{}@{}", file, sym));
            }
        }
    }
    None
}

pub fn install_panic_hook() {
    HOOK.call_once(|| {
        panic::set_hook(Box::new(|info| {
            let loc = info.location().map(|l| format!("{}:{}", l.file(), l.line())).unwrap_or_default();
            let file = info.location().map(|l| l.file().to_string()).unwrap_or_default();
            let msg = if let Some(s) = info.payload().downcast_ref::<&str>() {
                s.to_string()
            } else if let Some(s) = info.payload().downcast_ref::<String>() {
                s.clone()
            } else {
                "<non-string panic>".to_string()
            };
            let nm = norm_msg(&msg);
            let key = format!("{loc}|{nm}");
            let sig = {
                let cached = SIG_CACHE.lock().ok().and_then(|c| c.get(&key).cloned());
                match cached {
                    Some(s) => s,
                    None => {
                        let s = if let Some(rel) = file.strip_prefix(repo_root().as_str()) {
                            format!("{}|{}", rel, nm)
                        } else {
                            match repo_frame() {
                                Some(f) => format!("{}|{}", f, nm),
                                None => format!("{}|{}", file, nm),
                            }
                        };
                        if let Ok(mut c) = SIG_CACHE.lock() {
                            c.insert(key, s.clone());
                        }
                        s
                    },
                }
            };
            let quiet = QUIET.with(|q| *q.borrow());
            if !quiet {
                eprintln!("panic at {loc}: {msg}");
            }
            LAST_PANIC.with(|p| *p.borrow_mut() = Some(PanicInfo { loc, msg, sig }));
        }));
    });
}

/// Runs `f`, turning a panic into a `PanicInfo` (site, message, stable signature).
pub fn catch<T>(f: impl FnOnce() -> T) -> Result<T, PanicInfo> {
    install_panic_hook();
    LAST_PANIC.with(|p| *p.borrow_mut() = None);
    match panic::catch_unwind(AssertUnwindSafe(f)) {
        Ok(v) => Ok(v),
        Err(_) => Err(LAST_PANIC.with(|p| p.borrow_mut().take()).unwrap_or_else(|| PanicInfo {
            loc: "?".into(),
            msg: "panic on another thread".into(),
            sig: "unknown".into(),
        })),
    }
}

/// When a panic happens on a rayon worker and is re-raised on the caller, the thread-local of
/// the caller is empty; this global remembers the most recent panic of any thread.
pub fn set_quiet(q: bool) {
    QUIET.with(|x| *x.borrow_mut() = q);
}
