//! Reference arithmetic that shares no code with winter-math: residues as u128, reduction by
//! native `%` for the 62/64-bit primes and by carry-aware double-and-add for the 128-bit prime.
//! Extension fields: schoolbook polynomial product reduced by the documented irreducibles.

pub const P62: u128 = 4611624995532046337; // 2^62 - 111*2^39 + 1
pub const P64: u128 = 0xFFFF_FFFF_0000_0001; // 2^64 - 2^32 + 1
pub const P128: u128 = 340282366920938463463374557953744961537; // 2^128 - 45*2^40 + 1

#[derive(Clone, Copy, Debug, PartialEq, Eq)]
pub struct Fp {
    pub p: u128,
}

pub const F62: Fp = Fp { p: P62 };
pub const F64: Fp = Fp { p: P64 };
pub const F128: Fp = Fp { p: P128 };

impl Fp {
    #[inline]
    pub fn red(&self, x: u128) -> u128 {
        x % self.p
    }
    #[inline]
    pub fn add(&self, a: u128, b: u128) -> u128 {
        debug_assert!(a < self.p && b < self.p);
        // a + b may overflow u128 for the 128-bit prime
        let (s, c) = a.overflowing_add(b);
        if c {
            // true sum = s + 2^128; subtract p once (sum < 2p)
            s.wrapping_sub(self.p)
        } else if s >= self.p {
            s - self.p
        } else {
            s
        }
    }
    #[inline]
    pub fn sub(&self, a: u128, b: u128) -> u128 {
        if a >= b {
            a - b
        } else {
            self.p - (b - a)
        }
    }
    #[inline]
    pub fn neg(&self, a: u128) -> u128 {
        if a == 0 {
            0
        } else {
            self.p - a
        }
    }
    pub fn mul(&self, a: u128, b: u128) -> u128 {
        if self.p < (1u128 << 64) {
            (a * b) % self.p
        } else {
            // double-and-add, most significant bit first
            let mut r = 0u128;
            let mut i = 128 - b.leading_zeros();
            while i > 0 {
                i -= 1;
                r = self.add(r, r);
                if (b >> i) & 1 == 1 {
                    r = self.add(r, a);
                }
            }
            r
        }
    }
    pub fn pow(&self, a: u128, mut e: u128) -> u128 {
        let mut b = a;
        let mut r = 1u128 % self.p;
        while e > 0 {
            if e & 1 == 1 {
                r = self.mul(r, b);
            }
            b = self.mul(b, b);
            e >>= 1;
        }
        r
    }
    /// Fermat inversion; 0 -> 0
    pub fn inv(&self, a: u128) -> u128 {
        self.pow(a, self.p - 2)
    }
    pub fn div(&self, a: u128, b: u128) -> u128 {
        self.mul(a, self.inv(b))
    }
}

/// Extension field F_p[x]/(m(x)), m monic of degree N given by the reduction rule
/// x^N = sum red[i] x^i.
#[derive(Clone, Copy, Debug)]
pub struct Ext<const N: usize> {
    pub f: Fp,
    /// x^N expressed in the basis 1, x, .., x^(N-1) (as residues)
    pub red: [u128; N],
}

pub fn quad62() -> Ext<2> {
    Ext { f: F62, red: [1, 1] } // x^2 = x + 1
}
pub fn quad64() -> Ext<2> {
    Ext { f: F64, red: [P64 - 2, 1] } // x^2 = x - 2
}
pub fn quad128() -> Ext<2> {
    Ext { f: F128, red: [1, 1] } // x^2 = x + 1
}
pub fn cube62() -> Ext<3> {
    Ext { f: F62, red: [P62 - 2, P62 - 2, 0] } // x^3 = -2x - 2
}
pub fn cube64() -> Ext<3> {
    Ext { f: F64, red: [1, 1, 0] } // x^3 = x + 1
}

impl<const N: usize> Ext<N> {
    pub fn zero(&self) -> [u128; N] {
        [0; N]
    }
    pub fn one(&self) -> [u128; N] {
        let mut r = [0; N];
        r[0] = 1;
        r
    }
    pub fn add(&self, a: [u128; N], b: [u128; N]) -> [u128; N] {
        let mut r = [0; N];
        for i in 0..N {
            r[i] = self.f.add(a[i], b[i]);
        }
        r
    }
    pub fn sub(&self, a: [u128; N], b: [u128; N]) -> [u128; N] {
        let mut r = [0; N];
        for i in 0..N {
            r[i] = self.f.sub(a[i], b[i]);
        }
        r
    }
    pub fn neg(&self, a: [u128; N]) -> [u128; N] {
        let mut r = [0; N];
        for i in 0..N {
            r[i] = self.f.neg(a[i]);
        }
        r
    }
    pub fn mul(&self, a: [u128; N], b: [u128; N]) -> [u128; N] {
        // schoolbook product of degree 2N-2
        let mut t = vec![0u128; 2 * N - 1];
        for i in 0..N {
            for j in 0..N {
                t[i + j] = self.f.add(t[i + j], self.f.mul(a[i], b[j]));
            }
        }
        // reduce from the top
        for k in (N..2 * N - 1).rev() {
            let c = t[k];
            t[k] = 0;
            for i in 0..N {
                t[k - N + i] = self.f.add(t[k - N + i], self.f.mul(c, self.red[i]));
            }
        }
        let mut r = [0; N];
        r.copy_from_slice(&t[..N]);
        r
    }
    pub fn mul_base(&self, a: [u128; N], b: u128) -> [u128; N] {
        let mut r = [0; N];
        for i in 0..N {
            r[i] = self.f.mul(a[i], b);
        }
        r
    }
    /// a^e with e given as little-endian u128 limbs (the group order exceeds 128 bits)
    pub fn pow_limbs(&self, a: [u128; N], e: &[u128]) -> [u128; N] {
        let mut r = self.one();
        for limb in e.iter().rev() {
            for i in (0..128).rev() {
                r = self.mul(r, r);
                if (limb >> i) & 1 == 1 {
                    r = self.mul(r, a);
                }
            }
        }
        r
    }
    pub fn pow(&self, a: [u128; N], e: u128) -> [u128; N] {
        self.pow_limbs(a, &[e])
    }
    /// Frobenius x -> x^p
    pub fn frob(&self, a: [u128; N]) -> [u128; N] {
        self.pow(a, self.f.p)
    }
    /// inverse through the norm: a^-1 = (prod_{k=1..N-1} frob^k(a)) / Norm(a); 0 -> 0
    pub fn inv(&self, a: [u128; N]) -> [u128; N] {
        if a == [0; N] {
            return a;
        }
        let mut conj_prod = self.one();
        let mut c = a;
        for _ in 1..N {
            c = self.frob(c);
            conj_prod = self.mul(conj_prod, c);
        }
        let norm = self.mul(a, conj_prod);
        // norm lies in the base field
        debug_assert!(norm[1..].iter().all(|x| *x == 0));
        let ninv = self.f.inv(norm[0]);
        self.mul_base(conj_prod, ninv)
    }
}

// REFERENCE POLYNOMIALS over Fp (coefficients low to high)
// ================================================================================================

pub fn horner(f: &Fp, p: &[u128], x: u128) -> u128 {
    let mut r = 0;
    for c in p.iter().rev() {
        r = f.add(f.mul(r, x), *c);
    }
    r
}

pub fn horner_ext<const N: usize>(e: &Ext<N>, p: &[[u128; N]], x: [u128; N]) -> [u128; N] {
    let mut r = [0; N];
    for c in p.iter().rev() {
        r = e.add(e.mul(r, x), *c);
    }
    r
}

#[cfg(test)]
mod tests {
    use super::*;
    #[test]
    fn irreducibles_have_no_roots_small() {
        // x^2 = x - 2 over F64: check phi^(p^2) = phi
        let e = quad64();
        let phi = [0, 1];
        assert_eq!(e.frob(e.frob(phi)), phi);
        assert_ne!(e.frob(phi), phi);
        let e = cube64();
        let phi = [0, 1, 0];
        assert_eq!(e.frob(e.frob(e.frob(phi))), phi);
        assert_ne!(e.frob(phi), phi);
        let e = cube62();
        let phi = [0, 1, 0];
        assert_eq!(e.frob(e.frob(e.frob(phi))), phi);
        assert_ne!(e.frob(phi), phi);
        let a = [5, 7, 11];
        assert_eq!(e.mul(a, e.inv(a)), e.one());
    }
    #[test]
    fn f128_mul() {
        let f = F128;
        let a = P128 - 1;
        assert_eq!(f.mul(a, a), 1);
        assert_eq!(f.mul(f.inv(12345), 12345), 1);
    }
}
