//! `io::Read` over a byte vector that serves reads according to a schedule of chunk sizes and
//! counts what it handed out; optionally inserts zero-length reads before the real end of data.
use std::{cell::Cell, io::Read, rc::Rc};

use crate::prng::Rng;

#[derive(Clone, Debug, PartialEq)]
pub enum Schedule {
    OneByte,
    Fixed(usize),
    /// sizes cycle through the list
    Cycle(Vec<usize>),
    Whole,
    /// like Cycle, but a zero-length read is served at the given read-call numbers
    WithEmptyReads(Vec<usize>, Vec<usize>),
}

impl Schedule {
    pub fn random(rng: &mut Rng, allow_empty: bool) -> Schedule {
        match rng.below(if allow_empty { 8 } else { 7 }) {
            0 => Schedule::OneByte,
            1 => Schedule::Fixed(rng.range(2, 9)),
            2 => Schedule::Fixed(*rng.pick(&[15, 16, 17, 255, 256, 257, 511, 512, 513])),
            3 => Schedule::Whole,
            4 => Schedule::Cycle(vec![255, 2, 256, 1, 257, 3]),
            5 => Schedule::Cycle((0..rng.range(1, 8)).map(|_| rng.range(1, 300)).collect()),
            6 => Schedule::Cycle((0..rng.range(2, 6)).map(|_| rng.range(1, 20)).collect()),
            _ => {
                let sizes: Vec<usize> = (0..rng.range(1, 5)).map(|_| rng.range(1, 300)).collect();
                let empties: Vec<usize> = (0..rng.range(1, 3)).map(|_| rng.usize(12)).collect();
                Schedule::WithEmptyReads(sizes, empties)
            },
        }
    }
    pub fn class(&self) -> &'static str {
        match self {
            Schedule::OneByte => "one-byte",
            Schedule::Fixed(k) if *k < 15 => "fixed-small",
            Schedule::Fixed(_) => "fixed-around-buffer",
            Schedule::Cycle(v) if v.contains(&256) => "straddle-256",
            Schedule::Cycle(_) => "random-cycle",
            Schedule::Whole => "whole",
            Schedule::WithEmptyReads(..) => "empty-reads-before-eof",
        }
    }
}

/// observable from outside while a reader holds the source mutably
#[derive(Default)]
pub struct Stats {
    /// bytes handed out so far
    pub served: Cell<usize>,
    /// a zero-length read was served although data remained
    pub empty_read_before_eof: Cell<bool>,
    /// a zero-length read was served at the true end of the data
    pub eof_signalled: Cell<bool>,
    pub read_calls: Cell<usize>,
}

pub struct ChunkedSource {
    data: Vec<u8>,
    pos: usize,
    schedule: Schedule,
    calls: usize,
    pub stats: Rc<Stats>,
}

impl ChunkedSource {
    pub fn new(data: Vec<u8>, schedule: Schedule) -> Self {
        ChunkedSource { data, pos: 0, schedule, calls: 0, stats: Rc::new(Stats::default()) }
    }
}

impl Read for ChunkedSource {
    fn read(&mut self, out: &mut [u8]) -> std::io::Result<usize> {
        let call = self.calls;
        self.calls += 1;
        self.stats.read_calls.set(self.calls);
        let remaining = self.data.len() - self.pos;
        if remaining == 0 {
            self.stats.eof_signalled.set(true);
            return Ok(0);
        }
        if out.is_empty() {
            return Ok(0);
        }
        let want = match &self.schedule {
            Schedule::OneByte => 1,
            Schedule::Fixed(k) => *k,
            Schedule::Cycle(v) => v[call % v.len()],
            Schedule::Whole => usize::MAX,
            Schedule::WithEmptyReads(v, empties) => {
                if empties.contains(&call) {
                    self.stats.empty_read_before_eof.set(true);
                    return Ok(0);
                }
                v[call % v.len()]
            },
        };
        let n = want.min(remaining).min(out.len());
        out[..n].copy_from_slice(&self.data[self.pos..self.pos + n]);
        self.pos += n;
        self.stats.served.set(self.stats.served.get() + n);
        Ok(n)
    }
}
