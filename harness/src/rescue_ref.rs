//! Textbook Rescue-Prime permutation and sponge in reference arithmetic (u128 residues), built
//! from the pinned constants in `rescue_consts.rs`: S-box x^alpha, inverse S-box x^(1/alpha),
//! plain matrix-vector MDS product, round constants, 7 rounds.
use crate::{
    refmath::{Fp, F62, F64},
    rescue_consts::*,
};

#[derive(Clone, Copy, PartialEq, Eq, Debug)]
pub enum Mode {
    /// element count in one capacity cell, zero padding (Rp64_256 / Rp62_248)
    CountInCapacity,
    /// domain flag in capacity[0] when the input is not a multiple of the rate, 1||0* overwrite
    /// padding, Jive compression for merges (RpJive64_256)
    Jive,
}

pub struct Spec {
    pub name: &'static str,
    pub f: Fp,
    pub width: usize,
    pub rate_start: usize,
    pub rate_width: usize,
    /// state cell that receives the element count / domain flag
    pub cap_cell: usize,
    pub digest_start: usize,
    pub alpha: u128,
    pub inv_alpha: u128,
    pub mds: Vec<Vec<u128>>,
    pub ark1: Vec<Vec<u128>>,
    pub ark2: Vec<Vec<u128>>,
    pub mode: Mode,
}

fn m<const W: usize, const R: usize>(a: &[[u64; W]; R]) -> Vec<Vec<u128>> {
    a.iter().map(|r| r.iter().map(|x| *x as u128).collect()).collect()
}

pub fn rp64() -> Spec {
    Spec {
        name: "Rp64_256", f: F64, width: 12, rate_start: 4, rate_width: 8, cap_cell: 0, digest_start: 4,
        alpha: 7, inv_alpha: 10540996611094048183,
        mds: m(&RP64_MDS), ark1: m(&RP64_ARK1), ark2: m(&RP64_ARK2), mode: Mode::CountInCapacity,
    }
}
pub fn rp62() -> Spec {
    Spec {
        name: "Rp62_248", f: F62, width: 12, rate_start: 0, rate_width: 8, cap_cell: 11, digest_start: 0,
        alpha: 3, inv_alpha: 3074416663688030891,
        mds: m(&RP62_MDS), ark1: m(&RP62_ARK1), ark2: m(&RP62_ARK2), mode: Mode::CountInCapacity,
    }
}
pub fn jive() -> Spec {
    Spec {
        name: "RpJive64_256", f: F64, width: 8, rate_start: 4, rate_width: 4, cap_cell: 0, digest_start: 4,
        alpha: 7, inv_alpha: 10540996611094048183,
        mds: m(&JIVE_MDS), ark1: m(&JIVE_ARK1), ark2: m(&JIVE_ARK2), mode: Mode::Jive,
    }
}

impl Spec {
    /// alpha * inv_alpha = 1 mod (p - 1): the inverse S-box really inverts the S-box
    pub fn exponents_consistent(&self) -> bool {
        // (alpha * inv_alpha) mod (p-1) with 128-bit intermediate (both < 2^64)
        (self.alpha * self.inv_alpha) % (self.f.p - 1) == 1
    }
    fn mds_mul(&self, s: &mut [u128]) {
        let f = self.f;
        let mut r = vec![0u128; self.width];
        for i in 0..self.width {
            for j in 0..self.width {
                r[i] = f.add(r[i], f.mul(self.mds[i][j], s[j]));
            }
        }
        s.copy_from_slice(&r);
    }
    pub fn round(&self, s: &mut [u128], round: usize) {
        let f = self.f;
        for x in s.iter_mut() {
            *x = f.pow(*x, self.alpha);
        }
        self.mds_mul(s);
        for (x, k) in s.iter_mut().zip(&self.ark1[round]) {
            *x = f.add(*x, *k);
        }
        for x in s.iter_mut() {
            *x = f.pow(*x, self.inv_alpha);
        }
        self.mds_mul(s);
        for (x, k) in s.iter_mut().zip(&self.ark2[round]) {
            *x = f.add(*x, *k);
        }
    }
    pub fn permute(&self, s: &mut [u128]) {
        for r in 0..7 {
            self.round(s, r);
        }
    }
    fn digest(&self, s: &[u128]) -> [u128; 4] {
        [s[self.digest_start], s[self.digest_start + 1], s[self.digest_start + 2], s[self.digest_start + 3]]
    }
    /// sponge over a list of residues
    pub fn hash_elements(&self, els: &[u128]) -> [u128; 4] {
        let f = self.f;
        let mut s = vec![0u128; self.width];
        match self.mode {
            Mode::CountInCapacity => s[self.cap_cell] = (els.len() as u128) % f.p,
            Mode::Jive => {
                if els.len() % self.rate_width != 0 {
                    s[self.cap_cell] = 1
                }
            },
        }
        let mut i = 0;
        for e in els {
            s[self.rate_start + i] = f.add(s[self.rate_start + i], *e);
            i += 1;
            if i == self.rate_width {
                self.permute(&mut s);
                i = 0;
            }
        }
        if i > 0 {
            if self.mode == Mode::Jive {
                s[self.rate_start + i] = 1;
                for k in i + 1..self.rate_width {
                    s[self.rate_start + k] = 0;
                }
            }
            self.permute(&mut s);
        }
        self.digest(&s)
    }
    /// bytes -> 7-byte little-endian chunks, the last chunk followed by a 0x01 byte
    pub fn bytes_to_elements(bytes: &[u8]) -> Vec<u128> {
        let n = bytes.len().div_ceil(7);
        let mut v = Vec::with_capacity(n);
        for (k, c) in bytes.chunks(7).enumerate() {
            let mut buf = [0u8; 16];
            buf[..c.len()].copy_from_slice(c);
            if k == n - 1 {
                buf[c.len()] = 1;
            }
            v.push(u128::from_le_bytes(buf));
        }
        v
    }
    pub fn hash(&self, bytes: &[u8]) -> [u128; 4] {
        self.hash_elements(&Self::bytes_to_elements(bytes))
    }
    pub fn merge(&self, a: [u128; 4], b: [u128; 4]) -> [u128; 4] {
        match self.mode {
            Mode::CountInCapacity => {
                let mut v = a.to_vec();
                v.extend_from_slice(&b);
                self.hash_elements(&v)
            },
            Mode::Jive => {
                let mut s = a.to_vec();
                s.extend_from_slice(&b);
                self.jive_compress(s)
            },
        }
    }
    fn jive_compress(&self, init: Vec<u128>) -> [u128; 4] {
        let f = self.f;
        let mut s = init.clone();
        self.permute(&mut s);
        let mut r = [0u128; 4];
        for i in 0..4 {
            r[i] = f.add(f.add(init[i], init[4 + i]), f.add(s[i], s[4 + i]));
        }
        r
    }
    pub fn merge_with_int(&self, seed: [u128; 4], value: u64) -> [u128; 4] {
        let p = self.f.p;
        let v = value as u128;
        let mut els = seed.to_vec();
        els.push(v % p);
        if v >= p {
            els.push(v / p);
        }
        match self.mode {
            Mode::CountInCapacity => self.hash_elements(&els),
            Mode::Jive => {
                // state = seed || value [|| value / p] || 0.. with the element count in the last cell
                let n = els.len() as u128;
                let mut s = vec![0u128; 8];
                s[..els.len()].copy_from_slice(&els);
                s[7] = n;
                self.jive_compress(s)
            },
        }
    }
}
