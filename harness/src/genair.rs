//! Parametric computation family: one generic Air / Prover / Trace implementation driven by a
//! `Shape` value that travels in the public inputs (so the verifier rebuilds the same
//! description), together with its reference validity predicate.
use std::{marker::PhantomData, sync::Arc};

use winter_air::{
    proof::Queries, Air, AirContext, Assertion, AuxRandElements, ConstraintCompositionCoefficients, EvaluationFrame, FieldExtension,
    GkrVerifier, LagrangeKernelEvaluationFrame, LagrangeKernelRandElements, ProofOptions, TraceInfo, TransitionConstraintDegree,
};
use winter_crypto::{ElementHasher, RandomCoin};
use winter_math::{ExtensionOf, FieldElement, ToElements};
use winter_prover::{
    matrix::ColMatrix, DefaultConstraintEvaluator, DefaultTraceLde, Prover, ProverGkrProof, StarkDomain, Trace, TraceLde,
    TracePolyTable,
};

use crate::{fields::Fld, json::J, prng::Rng};

// SHAPE
// ================================================================================================

#[derive(Clone, Debug, PartialEq)]
pub enum Rule {
    /// next = a * cur^d + b * cur[src] (+ periodic[per])
    Pow { d: u32, a: u32, b: u32, src: usize, per: Option<usize> },
    /// next = cur * periodic[per] (+ cur[src])
    MulPer { per: usize, src: Option<usize> },
}

#[derive(Clone, Debug, PartialEq)]
pub enum Per {
    /// explicit small values
    Values(Vec<u32>),
    /// cycle of `len` non-trivial values whose product is one (a column multiplied by it is periodic)
    UnitProduct(usize),
}

#[derive(Clone, Debug, PartialEq)]
pub enum AKind {
    Single(usize),
    Periodic { first: usize, stride: usize },
    Sequence { first: usize, stride: usize },
}

#[derive(Clone, Debug, PartialEq)]
pub struct ASpec {
    pub col: usize,
    pub kind: AKind,
}

#[derive(Clone, Debug, PartialEq)]
pub struct AuxShape {
    /// regular auxiliary columns (running products / sums over the main columns)
    pub cols: usize,
    pub rands: usize,
    pub lagrange: bool,
}

#[derive(Clone, Debug, PartialEq)]
pub struct Shape {
    pub log_n: u32,
    pub rules: Vec<Rule>,
    pub periodic: Vec<Per>,
    pub exemptions: usize,
    pub asserts: Vec<ASpec>,
    pub aux: Option<AuxShape>,
    pub meta: Vec<u8>,
}

impl ASpec {
    pub fn steps(&self, n: usize) -> Vec<usize> {
        match self.kind {
            AKind::Single(s) => vec![s],
            AKind::Periodic { first, stride } => (0..n / stride).map(|k| first + k * stride).collect(),
            AKind::Sequence { first, stride } => (0..n / stride).map(|k| first + k * stride).collect(),
        }
    }
}

impl Shape {
    pub fn n(&self) -> usize {
        1 << self.log_n
    }
    pub fn width(&self) -> usize {
        self.rules.len()
    }
    pub fn aux_width(&self) -> usize {
        self.aux.as_ref().map(|a| a.cols + a.lagrange as usize).unwrap_or(0)
    }
    pub fn cycle_len(&self, p: usize) -> usize {
        match &self.periodic[p] {
            Per::Values(v) => v.len(),
            Per::UnitProduct(l) => *l,
        }
    }
    pub fn degree(&self, r: &Rule) -> TransitionConstraintDegree {
        match r {
            Rule::Pow { d, .. } => TransitionConstraintDegree::new(*d as usize),
            Rule::MulPer { per, .. } => TransitionConstraintDegree::with_cycles(1, vec![self.cycle_len(*per)]),
        }
    }
    pub fn main_degrees(&self) -> Vec<TransitionConstraintDegree> {
        self.rules.iter().map(|r| self.degree(r)).collect()
    }
    pub fn aux_degrees(&self) -> Vec<TransitionConstraintDegree> {
        match &self.aux {
            Some(a) => (0..a.cols).map(|_| TransitionConstraintDegree::new(if a.rands > 0 { 2 } else { 1 })).collect(),
            None => vec![],
        }
    }
    pub fn min_blowup(&self) -> usize {
        self.main_degrees().iter().chain(self.aux_degrees().iter()).map(|d| d.min_blowup_factor()).max().unwrap_or(2)
    }
    /// largest exemption count the context accepts for this shape
    pub fn max_exemptions(&self) -> usize {
        let n = self.n();
        let ce = n * self.min_blowup();
        let mut m = n / 2 + 1;
        for d in self.main_degrees().iter().chain(self.aux_degrees().iter()) {
            let ed = d.get_evaluation_degree(n);
            m = m.min(ce - 1 + n - ed);
        }
        m
    }
    pub fn trace_info(&self) -> TraceInfo {
        match &self.aux {
            None => TraceInfo::with_meta(self.width(), self.n(), self.meta.clone()),
            Some(a) => TraceInfo::new_multi_segment(self.width(), self.aux_width(), a.rands, self.n(), self.meta.clone()),
        }
    }
    pub fn periodic_values<B: Fld>(&self) -> Vec<Vec<B>> {
        self.periodic
            .iter()
            .enumerate()
            .map(|(k, p)| match p {
                Per::Values(v) => v.iter().map(|x| B::from(*x)).collect(),
                Per::UnitProduct(l) => {
                    let mut v: Vec<B> = (0..*l - 1).map(|i| B::from((3 + 2 * i + 5 * k) as u32)).collect();
                    let prod = v.iter().fold(B::ONE, |a, x| a * *x);
                    v.push(prod.inv());
                    v
                },
            })
            .collect()
    }
    /// compact encoding used as the head of the public inputs
    pub fn encode(&self) -> Vec<u32> {
        let mut v = vec![self.log_n, self.rules.len() as u32, self.exemptions as u32];
        for r in &self.rules {
            match r {
                Rule::Pow { d, a, b, src, per } => v.extend_from_slice(&[1, *d, *a, *b, *src as u32, per.map(|p| p as u32 + 1).unwrap_or(0)]),
                Rule::MulPer { per, src } => v.extend_from_slice(&[2, *per as u32, src.map(|p| p as u32 + 1).unwrap_or(0)]),
            }
        }
        v.push(self.periodic.len() as u32);
        for p in &self.periodic {
            match p {
                Per::Values(x) => {
                    v.push(1);
                    v.push(x.len() as u32);
                    v.extend_from_slice(x);
                },
                Per::UnitProduct(l) => v.extend_from_slice(&[2, *l as u32]),
            }
        }
        v.push(self.asserts.len() as u32);
        for a in &self.asserts {
            v.push(a.col as u32);
            match a.kind {
                AKind::Single(s) => v.extend_from_slice(&[1, s as u32]),
                AKind::Periodic { first, stride } => v.extend_from_slice(&[2, first as u32, stride as u32]),
                AKind::Sequence { first, stride } => v.extend_from_slice(&[3, first as u32, stride as u32]),
            }
        }
        match &self.aux {
            None => v.push(0),
            Some(a) => v.extend_from_slice(&[1, a.cols as u32, a.rands as u32, a.lagrange as u32]),
        }
        v
    }
    pub fn json(&self) -> J {
        J::obj(vec![
            ("trace_length", J::i(self.n())),
            ("width", J::i(self.width())),
            ("exemptions", J::i(self.exemptions)),
            ("rules", J::s(crate::report::truncate(&format!("{:?}", &self.rules[..self.rules.len().min(4)]), 300))),
            ("periodic", J::s(crate::report::truncate(&format!("{:?}", self.periodic), 200))),
            ("assertions", J::s(crate::report::truncate(&format!("{:?}", self.asserts), 300))),
            ("aux", J::s(format!("{:?}", self.aux))),
            ("meta_bytes", J::i(self.meta.len())),
        ])
    }
}

// TRACE GENERATION AND REFERENCE VALIDITY PREDICATE
// ================================================================================================

fn apply_rule<B: Fld>(shape: &Shape, per: &[Vec<B>], cols: &[Vec<B>], c: usize, i: usize) -> B {
    match &shape.rules[c] {
        Rule::Pow { d, a, b, src, per: p } => {
            let mut pw = B::ONE;
            for _ in 0..*d {
                pw *= cols[c][i];
            }
            let mut v = B::from(*a) * pw + B::from(*b) * cols[*src][i];
            if let Some(p) = p {
                v += per[*p][i % per[*p].len()];
            }
            v
        },
        Rule::MulPer { per: p, src } => {
            let mut v = cols[c][i] * per[*p][i % per[*p].len()];
            if let Some(s) = src {
                v += cols[*s][i];
            }
            v
        },
    }
}

/// columns that must keep following their rule in the exempt tail (periodic assertions name steps there)
fn keeps_tail(shape: &Shape, c: usize) -> bool {
    shape.asserts.iter().any(|a| a.col == c && matches!(a.kind, AKind::Periodic { .. }))
}

#[derive(Clone, Copy, Debug, PartialEq)]
pub enum TraceKind {
    Random,
    AllZero,
    AllOne,
    SmallValues,
}

pub fn gen_trace<B: Fld>(shape: &Shape, rng: &mut Rng, kind: TraceKind) -> Vec<Vec<B>> {
    let n = shape.n();
    let w = shape.width();
    let per = shape.periodic_values::<B>();
    let mut cols = vec![vec![B::ZERO; n]; w];
    for (c, col) in cols.iter_mut().enumerate() {
        col[0] = match kind {
            TraceKind::Random => crate::gen::rand_el::<B, B>(rng),
            TraceKind::AllZero => B::ZERO,
            TraceKind::AllOne => B::ONE,
            TraceKind::SmallValues => B::from((c as u32 % 7) + 1),
        };
    }
    let e = shape.exemptions;
    for i in 0..n - 1 {
        let enforced = i < n - e;
        let vals: Vec<B> = (0..w)
            .map(|c| {
                if enforced || keeps_tail(shape, c) || kind != TraceKind::Random {
                    apply_rule(shape, &per, &cols, c, i)
                } else {
                    // the exempt tail is arbitrary
                    crate::gen::rand_el::<B, B>(rng)
                }
            })
            .collect();
        for c in 0..w {
            cols[c][i + 1] = vals[c];
        }
    }
    cols
}

pub fn assertion_values<B: Fld>(shape: &Shape, cols: &[Vec<B>]) -> Vec<Vec<B>> {
    let n = shape.n();
    shape
        .asserts
        .iter()
        .map(|a| match a.kind {
            AKind::Single(s) => vec![cols[a.col][s]],
            AKind::Periodic { first, .. } => vec![cols[a.col][first]],
            AKind::Sequence { .. } => a.steps(n).iter().map(|s| cols[a.col][*s]).collect(),
        })
        .collect()
}

/// reference validity predicate: direct evaluation of every rule on every non-exempt row and of
/// every asserted cell; returns the first violated condition
pub fn validity<B: Fld>(shape: &Shape, cols: &[Vec<B>], values: &[Vec<B>]) -> Result<(), String> {
    let n = shape.n();
    let per = shape.periodic_values::<B>();
    for i in 0..n - shape.exemptions {
        for c in 0..shape.width() {
            if cols[c][i + 1] != apply_rule(shape, &per, cols, c, i) {
                return Err(format!("transition of column {c} at step {i}"));
            }
        }
    }
    for (a, v) in shape.asserts.iter().zip(values) {
        for (k, s) in a.steps(n).iter().enumerate() {
            let want = if matches!(a.kind, AKind::Sequence { .. }) { v[k] } else { v[0] };
            if cols[a.col][*s] != want {
                return Err(format!("assertion {:?} on column {} at step {s}", a.kind, a.col));
            }
        }
    }
    Ok(())
}

// RANDOM SHAPES
// ================================================================================================

#[derive(Clone, Debug)]
pub struct Limits {
    pub max_log_n: u32,
    pub max_width: usize,
    pub max_blowup: usize,
    pub allow_aux: bool,
}

impl Shape {
    pub fn random(rng: &mut Rng, lim: &Limits) -> Shape {
        let log_n = rng.range(3, lim.max_log_n as usize) as u32;
        let n = 1usize << log_n;
        let width = match rng.below(8) {
            0 => 1,
            1 => *rng.pick(&[2usize, 7, 8, 9, 16, 17]),
            _ => rng.range(1, 6),
        }
        .min(lim.max_width);
        // periodic columns with independent power-of-two cycle lengths
        let nper = rng.usize(4);
        let mut periodic = Vec::new();
        for _ in 0..nper {
            let cyc = 1usize << rng.range(1, log_n as usize);
            if rng.chance(1, 3) {
                periodic.push(Per::UnitProduct(cyc));
            } else {
                periodic.push(Per::Values((0..cyc).map(|_| rng.range(1, 1000) as u32).collect()));
            }
        }
        let max_deg = lim.max_blowup + 1;
        let mut rules = Vec::new();
        for c in 0..width {
            let src = rng.usize(width);
            let r = match rng.below(6) {
                0 if !periodic.is_empty() => {
                    let per = rng.usize(periodic.len());
                    // a multiplicative periodic column needs base 1 + 1 cycle - 1 <= blowup
                    Rule::MulPer { per, src: if rng.bool() { Some(src) } else { None } }
                },
                1 => Rule::Pow { d: 1, a: 1, b: 0, src: c, per: None }, // constant column
                2 => Rule::Pow { d: 1, a: rng.range(1, 9) as u32, b: rng.range(0, 9) as u32, src, per: None },
                _ => {
                    let d = match rng.below(4) {
                        0 => max_deg,
                        1 => 2,
                        _ => rng.range(1, max_deg),
                    } as u32;
                    let per = if !periodic.is_empty() && rng.bool() { Some(rng.usize(periodic.len())) } else { None };
                    Rule::Pow { d, a: rng.range(1, 5) as u32, b: rng.range(0, 5) as u32, src, per }
                },
            };
            rules.push(r);
        }
        let aux = if lim.allow_aux && rng.chance(1, 4) {
            Some(AuxShape { cols: rng.range(1, 3), rands: rng.usize(4), lagrange: rng.chance(1, 3) })
        } else {
            None
        };
        let meta = if rng.chance(1, 8) {
            let l = rng_len(rng);
            rng.bytes(l)
        } else {
            vec![]
        };
        let mut sh = Shape { log_n, rules, periodic, exemptions: 1, asserts: vec![], aux, meta };
        // exemptions: boundary-biased
        let max_e = sh.max_exemptions().max(1);
        sh.exemptions = match rng.below(6) {
            0 => 1,
            1 => 2.min(max_e),
            2 => max_e,
            3 => (n / 2).min(max_e),
            _ => rng.range(1, max_e),
        };
        sh.asserts = random_asserts(&sh, rng);
        sh
    }
}
fn rng_len(rng: &mut Rng) -> usize {
    rng.usize(40)
}

/// is column `c` periodic with period dividing `stride` for every trace the rules generate?
pub fn column_period(shape: &Shape, c: usize) -> Option<usize> {
    match &shape.rules[c] {
        Rule::Pow { d: 1, a: 1, b: 0, per: None, .. } => Some(1),
        Rule::MulPer { per, src: None } if matches!(shape.periodic[*per], Per::UnitProduct(_)) => Some(shape.cycle_len(*per)),
        _ => None,
    }
}

pub fn random_asserts(shape: &Shape, rng: &mut Rng) -> Vec<ASpec> {
    let n = shape.n();
    let w = shape.width();
    let mut out: Vec<ASpec> = vec![ASpec { col: 0, kind: AKind::Single(0) }];
    let mut used: Vec<Vec<bool>> = vec![vec![false; n]; w];
    used[0][0] = true;
    let tries = rng.range(0, 6);
    for _ in 0..tries {
        let col = rng.usize(w);
        let kind = match rng.below(6) {
            0 | 1 => {
                let r = rng.usize(n);
                AKind::Single(*rng.pick(&[0, 1, n - 1, n - shape.exemptions, (n - shape.exemptions).saturating_sub(1), r]))
            },
            2 | 3 => {
                let stride = 1usize << rng.range(1, shape.log_n as usize);
                // sequences of 64 or more values and non-zero first steps are boundary classes
                let stride = if rng.chance(1, 3) && n >= 128 { n / *rng.pick(&[64usize, 128]).min(&(n / 2)) } else { stride };
                AKind::Sequence { first: if rng.bool() { 0 } else { rng.usize(stride) }, stride }
            },
            _ => match column_period(shape, col) {
                Some(p) => {
                    let stride = (p.max(2)) << rng.usize(2);
                    if stride > n {
                        continue;
                    }
                    AKind::Periodic { first: rng.usize(stride), stride }
                },
                None => continue,
            },
        };
        let a = ASpec { col, kind };
        let steps = a.steps(n);
        if steps.iter().any(|s| *s >= n || used[col][*s]) {
            continue;
        }
        for s in &steps {
            used[col][*s] = true;
        }
        out.push(a);
    }
    out
}

/// proof options admissible for the shape: blowup large enough, fewer queries than LDE points,
/// well-formed FRI schedule
pub fn random_options(rng: &mut Rng, shape: &Shape, ext: FieldExtension, max_blowup: usize) -> ProofOptions {
    let n = shape.n();
    loop {
        let min_b = shape.min_blowup();
        let blowup = (min_b << rng.usize(3)).min(max_blowup.max(min_b)).min(128);
        let lde = n * blowup;
        let queries = match rng.below(8) {
            0 => 1,
            1 => 255.min(lde - 1),
            _ => rng.range(1, 40.min(lde - 1)),
        };
        let grinding = match rng.below(8) {
            0 => *rng.pick(&[1u32, 8, 12]),
            _ => 0,
        };
        let fold = 1usize << rng.range(1, 4);
        let rem = (1usize << rng.range(0, 8)) - 1;
        if !crate::frih::schedule_well_formed(lde, &winter_fri::FriOptions::new(blowup, fold, rem)) {
            continue;
        }
        return ProofOptions::new(queries, blowup, grinding, ext, fold, rem);
    }
}

// PUBLIC INPUTS
// ================================================================================================

#[derive(Clone, Debug)]
pub struct GPub<B: Fld> {
    pub shape: Arc<Shape>,
    pub values: Vec<Vec<B>>,
}

impl<B: Fld> ToElements<B> for GPub<B> {
    fn to_elements(&self) -> Vec<B> {
        let mut v: Vec<B> = self.shape.encode().into_iter().map(B::from).collect();
        for a in &self.values {
            v.push(B::from(a.len() as u32));
            v.extend_from_slice(a);
        }
        v
    }
}

// AIR
// ================================================================================================

#[derive(Debug, Clone, Default)]
pub struct StubGkr;

impl GkrVerifier for StubGkr {
    type GkrProof = u32;
    type Error = String;
    fn verify<E, H>(&self, gkr_proof: u32, coin: &mut impl RandomCoin<BaseField = E::BaseField, Hasher = H>) -> Result<LagrangeKernelRandElements<E>, String>
    where
        E: FieldElement,
        H: ElementHasher<BaseField = E::BaseField>,
    {
        if gkr_proof > 40 {
            return Err("implausible trace length".into());
        }
        // the GKR proof is a prover message: it is absorbed before the randomness derived from it
        coin.reseed(H::hash(&gkr_proof.to_le_bytes()));
        let mut r = Vec::new();
        for _ in 0..gkr_proof {
            r.push(coin.draw().map_err(|e| format!("{e}"))?);
        }
        Ok(LagrangeKernelRandElements::new(r))
    }
}

pub struct GAir<B: Fld> {
    ctx: AirContext<B>,
    pub_inputs: GPub<B>,
}

impl<B: Fld> Air for GAir<B> {
    type BaseField = B;
    type PublicInputs = GPub<B>;
    type GkrProof = u32;
    type GkrVerifier = StubGkr;

    fn new(ti: TraceInfo, p: GPub<B>, o: ProofOptions) -> Self {
        let sh = &p.shape;
        let ctx = if ti.is_multi_segment() {
            let a = sh.aux.as_ref().expect("aux shape");
            AirContext::new_multi_segment(ti, sh.main_degrees(), sh.aux_degrees(), sh.asserts.len(), a.cols, if a.lagrange { Some(a.cols) } else { None }, o)
        } else {
            AirContext::new(ti, sh.main_degrees(), sh.asserts.len(), o)
        }
        .set_num_transition_exemptions(sh.exemptions);
        GAir { ctx, pub_inputs: p }
    }
    fn context(&self) -> &AirContext<B> {
        &self.ctx
    }
    fn get_periodic_column_values(&self) -> Vec<Vec<B>> {
        self.pub_inputs.shape.periodic_values::<B>()
    }
    fn evaluate_transition<E: FieldElement<BaseField = B>>(&self, f: &EvaluationFrame<E>, p: &[E], r: &mut [E]) {
        let (cur, nxt) = (f.current(), f.next());
        for (c, rule) in self.pub_inputs.shape.rules.iter().enumerate() {
            r[c] = match rule {
                Rule::Pow { d, a, b, src, per } => {
                    let mut pw = E::ONE;
                    for _ in 0..*d {
                        pw *= cur[c];
                    }
                    let mut v = E::from(*a) * pw + E::from(*b) * cur[*src];
                    if let Some(k) = per {
                        v += p[*k];
                    }
                    nxt[c] - v
                },
                Rule::MulPer { per, src } => {
                    let mut v = cur[c] * p[*per];
                    if let Some(s) = src {
                        v += cur[*s];
                    }
                    nxt[c] - v
                },
            };
        }
    }
    fn get_assertions(&self) -> Vec<Assertion<B>> {
        self.pub_inputs
            .shape
            .asserts
            .iter()
            .zip(&self.pub_inputs.values)
            .map(|(a, v)| match a.kind {
                AKind::Single(s) => Assertion::single(a.col, s, v[0]),
                AKind::Periodic { first, stride } => Assertion::periodic(a.col, first, stride, v[0]),
                AKind::Sequence { first, stride } => Assertion::sequence(a.col, first, stride, v.clone()),
            })
            .collect()
    }
    fn evaluate_aux_transition<F, E>(&self, main: &EvaluationFrame<F>, aux: &EvaluationFrame<E>, p: &[F], rands: &[E], r: &mut [E])
    where
        F: FieldElement<BaseField = B>,
        E: FieldElement<BaseField = B> + ExtensionOf<F>,
    {
        let a = self.pub_inputs.shape.aux.as_ref().expect("aux shape");
        let w = self.pub_inputs.shape.width();
        for j in 0..a.cols {
            // the auxiliary rules also read the periodic columns (additively, so the declared degrees hold):
            // running product over (main + random + periodic) / running sum over (main + periodic)
            let pv: E = if p.is_empty() { E::ZERO } else { p[j % p.len()].into() };
            let m: E = E::from(main.current()[j % w]) + pv;
            // the number of random elements comes from the proof's trace info: be defensive, an
            // AIR cannot signal an error here
            let rnd = if a.rands > 0 { rands.get(j % a.rands).copied().unwrap_or(E::ZERO) } else { E::ZERO };
            r[j] = if a.rands > 0 { aux.next()[j] - aux.current()[j] * (m + rnd) } else { aux.next()[j] - (aux.current()[j] + m) };
        }
    }
    fn get_aux_assertions<E: FieldElement<BaseField = B>>(&self, _rands: &[E]) -> Vec<Assertion<E>> {
        let a = self.pub_inputs.shape.aux.as_ref().expect("aux shape");
        (0..a.cols).map(|j| Assertion::single(j, 0, if a.rands > 0 { E::ONE } else { E::ZERO })).collect()
    }
    fn get_auxiliary_proof_verifier<E: FieldElement<BaseField = B>>(&self) -> StubGkr {
        StubGkr
    }
}

// TRACE
// ================================================================================================

pub struct GTrace<B: Fld> {
    main: ColMatrix<B>,
    info: TraceInfo,
}

impl<B: Fld> GTrace<B> {
    pub fn new(shape: &Shape, cols: Vec<Vec<B>>) -> Self {
        GTrace { main: ColMatrix::new(cols), info: shape.trace_info() }
    }
}

impl<B: Fld> Trace for GTrace<B> {
    type BaseField = B;
    fn info(&self) -> &TraceInfo {
        &self.info
    }
    fn main_segment(&self) -> &ColMatrix<B> {
        &self.main
    }
    fn read_main_frame(&self, row: usize, frame: &mut EvaluationFrame<B>) {
        let next = (row + 1) % self.main.num_rows();
        self.main.read_row_into(row, frame.current_mut());
        self.main.read_row_into(next, frame.next_mut());
    }
}

// PROVER
// ================================================================================================

pub struct GProver<B: Fld, H: ElementHasher<BaseField = B>, R: RandomCoin<BaseField = B, Hasher = H>> {
    pub options: ProofOptions,
    pub pubs: GPub<B>,
    _p: PhantomData<(H, R)>,
}

impl<B: Fld, H: ElementHasher<BaseField = B>, R: RandomCoin<BaseField = B, Hasher = H>> GProver<B, H, R> {
    pub fn new(options: ProofOptions, pubs: GPub<B>) -> Self {
        GProver { options, pubs, _p: PhantomData }
    }
}

impl<B, H, R> Prover for GProver<B, H, R>
where
    B: Fld,
    H: ElementHasher<BaseField = B> + Sync + Send,
    R: RandomCoin<BaseField = B, Hasher = H> + Send + Sync,
{
    type BaseField = B;
    type Air = GAir<B>;
    type Trace = GTrace<B>;
    type HashFn = H;
    type RandomCoin = R;
    type TraceLde<E: FieldElement<BaseField = B>> = SwapLde<E, H>;
    type ConstraintEvaluator<'a, E: FieldElement<BaseField = B>> = DefaultConstraintEvaluator<'a, GAir<B>, E>;

    fn get_pub_inputs(&self, _t: &GTrace<B>) -> GPub<B> {
        self.pubs.clone()
    }
    fn options(&self) -> &ProofOptions {
        &self.options
    }
    fn new_trace_lde<E: FieldElement<BaseField = B>>(&self, ti: &TraceInfo, m: &ColMatrix<B>, d: &StarkDomain<B>) -> (Self::TraceLde<E>, TracePolyTable<E>) {
        let (honest, polys) = DefaultTraceLde::new(ti, m, d);
        let committed = FAKE_MAIN.with(|x| x.borrow().clone()).map(|cols| {
            let fake = ColMatrix::new(cols.iter().map(|c| c.iter().map(|v| B::from_res(*v)).collect()).collect());
            DefaultTraceLde::new(ti, &fake, d).0
        });
        (SwapLde { honest, committed }, polys)
    }
    fn new_evaluator<'a, E: FieldElement<BaseField = B>>(&self, air: &'a GAir<B>, aux: Option<AuxRandElements<E>>, cc: ConstraintCompositionCoefficients<E>) -> Self::ConstraintEvaluator<'a, E> {
        DefaultConstraintEvaluator::new(air, aux, cc)
    }
    fn generate_gkr_proof<E: FieldElement<BaseField = B>>(&self, main: &GTrace<B>, coin: &mut R) -> (ProverGkrProof<Self>, LagrangeKernelRandElements<E>) {
        let log_n = main.main_segment().num_rows().ilog2();
        coin.reseed(H::hash(&log_n.to_le_bytes()));
        let r: Vec<E> = (0..log_n).map(|_| coin.draw().expect("draw")).collect();
        (log_n, LagrangeKernelRandElements::new(r))
    }
    fn build_aux_trace<E: FieldElement<BaseField = B>>(&self, main: &GTrace<B>, rands: &AuxRandElements<E>) -> ColMatrix<E> {
        build_aux::<B, E>(&self.pubs.shape, main.main_segment(), rands.rand_elements(), rands.lagrange().map(|l| l.as_ref().to_vec()))
    }
}

thread_local! {
    /// main trace (residues, column major) whose low-degree extension a cheating prover commits to
    /// and opens INSTEAD of the one of the trace it proves (None = honest)
    static FAKE_MAIN: std::cell::RefCell<Option<Vec<Vec<u128>>>> = const { std::cell::RefCell::new(None) };
}
pub fn set_committed_main_trace(cols: Option<Vec<Vec<u128>>>) {
    FAKE_MAIN.with(|x| *x.borrow_mut() = cols);
}

/// trace LDE of a prover that may commit to (and open) the extension of another main trace than
/// the one whose polynomials, constraint evaluations and out-of-domain frame it uses
pub struct SwapLde<E: FieldElement, H: ElementHasher<BaseField = E::BaseField>> {
    honest: DefaultTraceLde<E, H>,
    committed: Option<DefaultTraceLde<E, H>>,
}

impl<E: FieldElement, H: ElementHasher<BaseField = E::BaseField>> TraceLde<E> for SwapLde<E, H> {
    type HashFn = H;
    fn get_main_trace_commitment(&self) -> H::Digest {
        self.committed.as_ref().unwrap_or(&self.honest).get_main_trace_commitment()
    }
    fn set_aux_trace(&mut self, aux_trace: &ColMatrix<E>, domain: &StarkDomain<E::BaseField>) -> (ColMatrix<E>, H::Digest) {
        let r = self.honest.set_aux_trace(aux_trace, domain);
        if let Some(c) = &mut self.committed {
            let _ = c.set_aux_trace(aux_trace, domain);
        }
        r
    }
    fn read_main_trace_frame_into(&self, lde_step: usize, frame: &mut EvaluationFrame<E::BaseField>) {
        self.honest.read_main_trace_frame_into(lde_step, frame)
    }
    fn read_aux_trace_frame_into(&self, lde_step: usize, frame: &mut EvaluationFrame<E>) {
        self.honest.read_aux_trace_frame_into(lde_step, frame)
    }
    fn read_lagrange_kernel_frame_into(&self, lde_step: usize, col_idx: usize, frame: &mut LagrangeKernelEvaluationFrame<E>) {
        self.honest.read_lagrange_kernel_frame_into(lde_step, col_idx, frame)
    }
    fn query(&self, positions: &[usize]) -> Vec<Queries> {
        self.committed.as_ref().unwrap_or(&self.honest).query(positions)
    }
    fn trace_len(&self) -> usize {
        self.honest.trace_len()
    }
    fn blowup(&self) -> usize {
        self.honest.blowup()
    }
    fn trace_info(&self) -> &TraceInfo {
        self.honest.trace_info()
    }
}

thread_local! {
    /// (column, row) of the auxiliary segment that the prover corrupts by +1 after building it
    /// honestly (a cheating prover for the soundness monitor; None = honest)
    static AUX_CORRUPT: std::cell::Cell<Option<(usize, usize)>> = const { std::cell::Cell::new(None) };
}
pub fn set_aux_corruption(c: Option<(usize, usize)>) {
    AUX_CORRUPT.with(|x| x.set(c));
}
thread_local! {
    /// auxiliary column that the prover rescales as a whole (x2 for running products, +1 for running
    /// sums): every transition constraint still holds, only the boundary assertion on the column fails
    static AUX_RESCALE: std::cell::Cell<Option<usize>> = const { std::cell::Cell::new(None) };
}
pub fn set_aux_rescaling(c: Option<usize>) {
    AUX_RESCALE.with(|x| x.set(c));
}

/// auxiliary segment as the honest prover builds it
pub fn build_aux<B: Fld, E: FieldElement<BaseField = B>>(shape: &Shape, main: &ColMatrix<B>, rands: &[E], lagrange: Option<Vec<E>>) -> ColMatrix<E> {
    let a = shape.aux.as_ref().expect("aux shape");
    let n = main.num_rows();
    let w = shape.width();
    let mut cols: Vec<Vec<E>> = Vec::new();
    let per = shape.periodic_values::<B>();
    for j in 0..a.cols {
        let mut col = vec![if a.rands > 0 { E::ONE } else { E::ZERO }; n];
        for i in 0..n - 1 {
            let pv = if per.is_empty() { B::ZERO } else { per[j % per.len()][i % per[j % per.len()].len()] };
            let m = E::from(main.get(j % w, i) + pv);
            col[i + 1] = if a.rands > 0 { col[i] * (m + rands[j % a.rands]) } else { col[i] + m };
        }
        cols.push(col);
    }
    if let Some(c) = AUX_RESCALE.with(|x| x.get()) {
        if c < a.cols {
            for v in cols[c].iter_mut() {
                *v = if a.rands > 0 { *v + *v } else { *v + E::ONE };
            }
        }
    }
    if let Some((c, r)) = AUX_CORRUPT.with(|x| x.get()) {
        if c < a.cols && r < n {
            cols[c][r] += E::ONE;
        }
    }
    if a.lagrange {
        let r = lagrange.expect("lagrange randomness");
        let mut col = Vec::with_capacity(n);
        for row in 0..n {
            let mut v = E::ONE;
            for (bit, r_i) in r.iter().enumerate() {
                v *= if row & (1 << bit) == 0 { E::ONE - *r_i } else { *r_i };
            }
            col.push(v);
        }
        cols.push(col);
    }
    ColMatrix::new(cols)
}
