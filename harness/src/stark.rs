//! Non-generic entry points to the generic prover/verifier of `genair` (the generic code is
//! instantiated once here, in the library crate, for every admissible field x hasher x coin
//! combination, and shared by all driver binaries).
use std::sync::Arc;

use winter_air::{proof::Proof, FieldExtension, ProofOptions};
use winter_crypto::{
    hashers::{Blake3_192, Blake3_256, Rp62_248, Rp64_256, RpJive64_256, Sha3_256},
    DefaultRandomCoin, ElementHasher, RandomCoin,
};
use winter_math::{
    fields::{f128, f62, f64, CubeExtension, QuadExtension},
    FieldElement,
};
use winter_utils::Serializable;
use winter_prover::Prover;
use winter_verifier::{verify, AcceptableOptions};

use crate::{
    coin::RecCoin,
    fields::Fld,
    genair::{GAir, GProver, GPub, GTrace, Shape},
    report::{catch, PanicInfo},
};

#[derive(Clone, Copy, Debug, PartialEq, Eq, Hash)]
pub enum Fd {
    F62,
    F64,
    F128,
}
#[derive(Clone, Copy, Debug, PartialEq, Eq, Hash)]
pub enum Hs {
    Blake3_192,
    Blake3_256,
    Sha3_256,
    Rp62_248,
    Rp64_256,
    RpJive64_256,
}

pub const COMBOS: [(Fd, Hs); 12] = [
    (Fd::F64, Hs::Blake3_256),
    (Fd::F64, Hs::Rp64_256),
    (Fd::F64, Hs::RpJive64_256),
    (Fd::F64, Hs::Blake3_192),
    (Fd::F64, Hs::Sha3_256),
    (Fd::F62, Hs::Rp62_248),
    (Fd::F62, Hs::Blake3_256),
    (Fd::F62, Hs::Blake3_192),
    (Fd::F62, Hs::Sha3_256),
    (Fd::F128, Hs::Blake3_256),
    (Fd::F128, Hs::Sha3_256),
    (Fd::F128, Hs::Blake3_192),
];

pub fn modulus(fd: Fd) -> u128 {
    match fd {
        Fd::F62 => crate::refmath::P62,
        Fd::F64 => crate::refmath::P64,
        Fd::F128 => crate::refmath::P128,
    }
}

/// a statement + witness in field-agnostic form (residues)
#[derive(Clone, Debug)]
pub struct Instance {
    pub fd: Fd,
    pub hs: Hs,
    pub shape: Arc<Shape>,
    pub options: ProofOptions,
    /// main trace columns as residues
    pub cols: Vec<Vec<u128>>,
    /// assertion values claimed in the public inputs (one vector per assertion)
    pub values: Vec<Vec<u128>>,
}

pub enum Proved {
    Ok(Proof),
    Err(String),
    Panic(PanicInfo),
}

fn to_field<B: Fld>(v: &[Vec<u128>]) -> Vec<Vec<B>> {
    v.iter().map(|c| c.iter().map(|x| B::from_res(*x)).collect()).collect()
}

fn prove_g<B: Fld, H: ElementHasher<BaseField = B> + Send + Sync, R: RandomCoin<BaseField = B, Hasher = H> + Send + Sync>(inst: &Instance) -> Proved {
    let pubs = GPub::<B> { shape: inst.shape.clone(), values: to_field::<B>(&inst.values) };
    let r = catch(|| {
        let trace = GTrace::<B>::new(&inst.shape, to_field::<B>(&inst.cols));
        let prover = GProver::<B, H, R>::new(inst.options.clone(), pubs);
        prover.prove(trace)
    });
    match r {
        Ok(Ok(p)) => Proved::Ok(p),
        Ok(Err(e)) => Proved::Err(format!("{e}")),
        Err(p) => Proved::Panic(p),
    }
}

fn verify_g<B: Fld, H: ElementHasher<BaseField = B>, R: RandomCoin<BaseField = B, Hasher = H>>(shape: &Arc<Shape>, values: &[Vec<u128>], proof: Proof, acc: &AcceptableOptions) -> Result<Result<(), String>, PanicInfo> {
    let pubs = GPub::<B> { shape: shape.clone(), values: to_field::<B>(values) };
    catch(|| verify::<GAir<B>, H, R>(proof, pubs, acc).map_err(|e| format!("{e}")))
}

macro_rules! dispatch {
    ($fd:expr, $hs:expr, $record:expr, $f:ident, $($args:expr),*) => {{
        type B62 = f62::BaseElement;
        type B64 = f64::BaseElement;
        type B128 = f128::BaseElement;
        macro_rules! go {
            ($B:ty, $H:ty) => {
                if $record { $f::<$B, $H, RecCoin<$H>>($($args),*) } else { $f::<$B, $H, DefaultRandomCoin<$H>>($($args),*) }
            };
        }
        match ($fd, $hs) {
            (Fd::F62, Hs::Blake3_192) => go!(B62, Blake3_192<B62>),
            (Fd::F62, Hs::Blake3_256) => go!(B62, Blake3_256<B62>),
            (Fd::F62, Hs::Sha3_256) => go!(B62, Sha3_256<B62>),
            (Fd::F62, Hs::Rp62_248) => go!(B62, Rp62_248),
            (Fd::F64, Hs::Blake3_192) => go!(B64, Blake3_192<B64>),
            (Fd::F64, Hs::Blake3_256) => go!(B64, Blake3_256<B64>),
            (Fd::F64, Hs::Sha3_256) => go!(B64, Sha3_256<B64>),
            (Fd::F64, Hs::Rp64_256) => go!(B64, Rp64_256),
            (Fd::F64, Hs::RpJive64_256) => go!(B64, RpJive64_256),
            (Fd::F128, Hs::Blake3_192) => go!(B128, Blake3_192<B128>),
            (Fd::F128, Hs::Blake3_256) => go!(B128, Blake3_256<B128>),
            (Fd::F128, Hs::Sha3_256) => go!(B128, Sha3_256<B128>),
            (f, h) => panic!("inadmissible combination {f:?}/{h:?}"),
        }
    }};
}

/// runs the prover; with `record` the public coin is the recording coin (events land in the
/// thread-local log of `crate::coin`)
pub fn prove(inst: &Instance, record: bool) -> Proved {
    dispatch!(inst.fd, inst.hs, record, prove_g, inst)
}

/// runs the verifier against the statement described by (shape, values)
pub fn verify_proof(fd: Fd, hs: Hs, shape: &Arc<Shape>, values: &[Vec<u128>], proof: Proof, acc: &AcceptableOptions, record: bool) -> Result<Result<(), String>, PanicInfo> {
    dispatch!(fd, hs, record, verify_g, shape, values, proof, acc)
}

fn rem_commit_g<B: Fld, H: ElementHasher<BaseField = B>, R: RandomCoin<BaseField = B, Hasher = H>>(ext: FieldExtension, rem: &[u8]) -> Option<Vec<u8>> {
    fn go<B: Fld, E: FieldElement<BaseField = B>, H: ElementHasher<BaseField = B>>(rem: &[u8]) -> Option<Vec<u8>> {
        if rem.len() % E::ELEMENT_BYTES != 0 {
            return None;
        }
        let mut els: Vec<E> = Vec::new();
        for c in rem.chunks(E::ELEMENT_BYTES) {
            els.push(E::read_from_bytes(c).ok()?);
        }
        Some(H::hash_elements(&els).to_bytes())
    }
    match ext {
        FieldExtension::None => go::<B, B, H>(rem),
        FieldExtension::Quadratic => go::<B, QuadExtension<B>, H>(rem),
        FieldExtension::Cubic => go::<B, CubeExtension<B>, H>(rem),
    }
}
/// serialized commitment (hash_elements) to a FRI remainder given as serialized elements
pub fn remainder_commitment(fd: Fd, hs: Hs, ext: FieldExtension, rem: &[u8]) -> Option<Vec<u8>> {
    dispatch!(fd, hs, false, rem_commit_g, ext, rem)
}

// FIELD-AGNOSTIC TRACE HELPERS
// ================================================================================================

macro_rules! by_field {
    ($fd:expr, $f:ident, $($args:expr),*) => {
        match $fd {
            Fd::F62 => $f::<f62::BaseElement>($($args),*),
            Fd::F64 => $f::<f64::BaseElement>($($args),*),
            Fd::F128 => $f::<f128::BaseElement>($($args),*),
        }
    };
}

fn gen_trace_g<B: Fld>(shape: &Shape, rng: &mut crate::prng::Rng, kind: crate::genair::TraceKind) -> (Vec<Vec<u128>>, Vec<Vec<u128>>) {
    let cols = crate::genair::gen_trace::<B>(shape, rng, kind);
    let vals = crate::genair::assertion_values::<B>(shape, &cols);
    (cols.iter().map(|c| c.iter().map(|x| x.res()).collect()).collect(), vals.iter().map(|c| c.iter().map(|x| x.res()).collect()).collect())
}
/// (trace columns, assertion values read from the trace) as residues
pub fn gen_trace(fd: Fd, shape: &Shape, rng: &mut crate::prng::Rng, kind: crate::genair::TraceKind) -> (Vec<Vec<u128>>, Vec<Vec<u128>>) {
    by_field!(fd, gen_trace_g, shape, rng, kind)
}

fn validity_g<B: Fld>(shape: &Shape, cols: &[Vec<u128>], values: &[Vec<u128>]) -> Result<(), String> {
    crate::genair::validity::<B>(shape, &to_field::<B>(cols), &to_field::<B>(values))
}
/// the reference validity predicate on residues
pub fn validity(fd: Fd, shape: &Shape, cols: &[Vec<u128>], values: &[Vec<u128>]) -> Result<(), String> {
    by_field!(fd, validity_g, shape, cols, values)
}

pub fn cubic_supported(fd: Fd) -> bool {
    fd != Fd::F128
}

// THE LIBRARY'S OWN DEFINITION OF TRACE VALIDITY
// ================================================================================================

fn lib_validate_g<B: Fld>(shape: &Arc<Shape>, options: &ProofOptions, cols: &[Vec<u128>], values: &[Vec<u128>]) -> Result<(), String> {
    use winter_air::{Air, AuxRandElements, LagrangeKernelRandElements};
    use winter_prover::{AuxTraceWithMetadata, Trace};
    let pubs = GPub::<B> { shape: shape.clone(), values: to_field::<B>(values) };
    let r = catch(|| {
        let trace = GTrace::<B>::new(shape, to_field::<B>(cols));
        let air = GAir::<B>::new(trace.info().clone(), pubs, options.clone());
        // auxiliary segment: built honestly from arbitrary (fixed) random elements, over the base field
        let aux = shape.aux.as_ref().map(|a| {
            let rands: Vec<B> = (0..a.rands).map(|k| B::from(1000 + 7 * k as u32)).collect();
            let lagr: Option<Vec<B>> = if a.lagrange { Some((0..shape.log_n).map(|k| B::from(3 + 2 * k)).collect()) } else { None };
            let aux_trace = crate::genair::build_aux::<B, B>(shape, trace.main_segment(), &rands, lagr.clone());
            AuxTraceWithMetadata {
                aux_trace,
                aux_rand_elements: AuxRandElements::new_with_lagrange(rands, lagr.map(LagrangeKernelRandElements::new)),
                gkr_proof: None,
            }
        });
        trace.validate::<GAir<B>, B>(&air, aux.as_ref());
    });
    r.map_err(|p| p.msg)
}

/// `Trace::validate` of the library (the executable definition of validity that the prover uses in debug builds),
/// run on the main trace given as residues; `Err(message of its assertion)` when it calls the trace invalid
pub fn library_validate(fd: Fd, shape: &Arc<Shape>, options: &ProofOptions, cols: &[Vec<u128>], values: &[Vec<u128>]) -> Result<(), String> {
    match fd {
        Fd::F62 => lib_validate_g::<f62::BaseElement>(shape, options, cols, values),
        Fd::F64 => lib_validate_g::<f64::BaseElement>(shape, options, cols, values),
        Fd::F128 => lib_validate_g::<f128::BaseElement>(shape, options, cols, values),
    }
}

fn levels_g<B: Fld, H: ElementHasher<BaseField = B>, R: RandomCoin<BaseField = B, Hasher = H>>(proof: &Proof) -> (u32, u32) {
    (proof.security_level::<H>(true), proof.security_level::<H>(false))
}
/// (conjectured, proven) security level of a proof under the hasher of the combination
pub fn security_levels(fd: Fd, hs: Hs, proof: &Proof) -> (u32, u32) {
    dispatch!(fd, hs, false, levels_g, proof)
}
