//! Helpers around the stand-alone FRI prover/verifier (used by C05, C12, C15).
use winter_crypto::{DefaultRandomCoin, ElementHasher, RandomCoin};
use winter_fri::{DefaultProverChannel, DefaultVerifierChannel, FriOptions, FriProof, FriProver, FriVerifier, VerifierError};
use winter_math::{fft, FieldElement};
use winter_utils::{Deserializable, Serializable};

use crate::fields::Fld;

/// evaluations of the polynomial `p` (coefficients, len <= domain) over the FRI domain
/// offset * w^i, i < domain_size, computed with the library FFT (monitored by C09)
pub fn evaluate<B: Fld, E: FieldElement<BaseField = B>>(p: &[E], domain_size: usize) -> Vec<E> {
    let mut c = p.to_vec();
    c.resize(domain_size, E::ZERO);
    let tw = fft::get_twiddles::<B>(domain_size);
    // shift by the domain offset: p(offset * x)
    let offset = B::GENERATOR;
    let mut pw = B::ONE;
    for x in c.iter_mut() {
        *x = *x * E::from(pw);
        pw *= offset;
    }
    fft::evaluate_poly(&mut c, &tw);
    c
}

pub struct Instance<H: ElementHasher> {
    pub proof: FriProof,
    pub commitments: Vec<H::Digest>,
    pub positions: Vec<usize>,
    pub domain_size: usize,
    pub options: FriOptions,
}

pub type Chan<E, H> = DefaultProverChannel<E, H, DefaultRandomCoin<H>>;

/// honest proof for `evaluations`; positions are drawn from the channel unless given
pub fn prove<B: Fld, E: FieldElement<BaseField = B>, H: ElementHasher<BaseField = B>>(
    prover: &mut FriProver<B, E, Chan<E, H>, H>,
    evaluations: Vec<E>,
    options: &FriOptions,
    num_queries: usize,
    positions: Option<Vec<usize>>,
) -> Instance<H> {
    let domain_size = evaluations.len();
    let mut channel = Chan::<E, H>::new(domain_size, num_queries);
    prover.build_layers(&mut channel, evaluations);
    let positions = positions.unwrap_or_else(|| channel.draw_query_positions(0));
    let proof = prover.build_proof(&positions);
    Instance { proof, commitments: channel.layer_commitments().to_vec(), positions, domain_size, options: options.clone() }
}

pub fn verify<B: Fld, E: FieldElement<BaseField = B>, H: ElementHasher<BaseField = B>>(
    proof: FriProof,
    commitments: Vec<H::Digest>,
    queried: &[E],
    positions: &[usize],
    max_degree: usize,
    domain_size: usize,
    options: &FriOptions,
) -> Result<(), String> {
    let mut channel = DefaultVerifierChannel::<E, H>::new(proof, commitments, domain_size, options.folding_factor()).map_err(|e| format!("channel: {e}"))?;
    let mut coin = DefaultRandomCoin::<H>::new(&[]);
    let verifier = FriVerifier::new(&mut channel, &mut coin, options.clone(), max_degree).map_err(|e: VerifierError| format!("new: {e}"))?;
    verifier.verify(&mut channel, queried, positions).map_err(|e| format!("verify: {e}"))
}

pub fn roundtrip(proof: &FriProof) -> Result<FriProof, String> {
    FriProof::read_from_bytes(&proof.to_bytes()).map_err(|e| format!("{e}"))
}

/// well-formed schedule: every folded layer keeps at least 2 rows... (domain shrinks by the folding
/// factor while it exceeds the maximal remainder size; the remainder must keep >= 1 coefficient)
pub fn schedule_well_formed(domain_size: usize, options: &FriOptions) -> bool {
    let mut d = domain_size;
    let max_rem = (options.remainder_max_degree() + 1) * options.blowup_factor();
    while d > max_rem {
        if d < options.folding_factor() * 2 {
            return false;
        }
        d /= options.folding_factor();
    }
    // remainder polynomial has d / blowup coefficients
    d >= options.blowup_factor() && d / options.blowup_factor() >= 1
}

// HAND-WRITTEN FRI PROVER (partitioned commitment layout, choice of row coordinates)
// ================================================================================================

/// which x coordinate the prover attributes to row r of a layer when it folds
#[derive(Clone, Copy, Debug, PartialEq)]
pub enum RowCoord {
    /// offset * g^r: the position of the row in the folded domain (what the protocol defines)
    DomainPosition,
    /// offset * g^index(r): the leaf index that holds the row in the partitioned layout (an
    /// adversary betting on a verifier that confuses the two)
    LeafIndex,
}

pub struct ManualProof<H: ElementHasher> {
    pub proof: FriProof,
    pub commitments: Vec<H::Digest>,
}

fn fold_rows<B: Fld, E: FieldElement<BaseField = B>, const N: usize>(rows: &[[E; N]], idx: &[usize], coord: RowCoord, alpha: E) -> Vec<E> {
    match coord {
        RowCoord::DomainPosition => winter_fri::folding::apply_drp(rows, B::GENERATOR, alpha),
        RowCoord::LeafIndex => {
            // apply_drp gives the row in slot s the coordinate offset * g^s: put row r into slot index(r)
            let mut scratch = rows.to_vec();
            for (r, row) in rows.iter().enumerate() {
                scratch[idx[r]] = *row;
            }
            let res = winter_fri::folding::apply_drp(&scratch, B::GENERATOR, alpha);
            (0..rows.len()).map(|r| res[idx[r]]).collect()
        },
    }
}

/// inverse of `fold_rows` for every challenge at once: given N functions h_0..h_{N-1} on the folded
/// domain, the rows G(r + l*rows) = sum_j (x_r * w^l)^j h_j(r) fold to sum_j alpha^j h_j(r)
fn unfold_rows<B: Fld, E: FieldElement<BaseField = B>, const N: usize>(hs: &[Vec<E>], idx: &[usize], coord: RowCoord) -> Vec<E> {
    let rows = hs[0].len();
    let g = B::get_root_of_unity((rows * N).ilog2());
    let w = B::get_root_of_unity(N.ilog2());
    let mut out = vec![E::ZERO; rows * N];
    for r in 0..rows {
        let e = if coord == RowCoord::LeafIndex { idx[r] } else { r };
        let x = B::GENERATOR * g.exp_vartime(B::pi(e as u128));
        let mut wl = B::ONE;
        for l in 0..N {
            let xl = E::from(x * wl);
            let mut acc = E::ZERO;
            let mut pw = E::ONE;
            for h in hs.iter().take(N) {
                acc += pw * h[r];
                pw *= xl;
            }
            out[r + l * rows] = acc;
            wl *= w;
        }
    }
    out
}

fn leaf_indexes(rows: usize, layer_domain: usize, fold: usize, parts: usize) -> Vec<usize> {
    let all: Vec<usize> = (0..rows).collect();
    winter_fri::utils::map_positions_to_indexes(&all, layer_domain, fold, parts)
}

thread_local! {
    /// when set, the hand-written prover sends (and commits to) the remainder obtained by reading the last layer as
    /// the evaluations of a polynomial over the first half of a domain of TWICE the size, zero-padded to twice the
    /// regular number of coefficients (an adversary betting on a verifier that derives the evaluation domain of the
    /// remainder from the remainder's own length)
    pub static STRETCHED_REMAINDER: std::cell::Cell<bool> = const { std::cell::Cell::new(false) };
}

/// commit phase and query phase written out by hand for folding factor N; rows of every layer are
/// stored at the leaves of the layout with 2^log_parts partitions
pub fn manual_prove_n<B: Fld, E: FieldElement<BaseField = B>, H: ElementHasher<BaseField = B>, const N: usize>(
    f0: &[E],
    options: &FriOptions,
    positions: &[usize],
    log_parts: u8,
    coord: RowCoord,
) -> Option<ManualProof<H>> {
    use winter_crypto::{Hasher, MerkleTree, RandomCoin};
    let parts = 1usize << log_parts;
    let layers = options.num_fri_layers(f0.len());
    let mut coin = DefaultRandomCoin::<H>::new(&[]);
    let mut cur = f0.to_vec();
    let mut commitments = Vec::new();
    let mut stored: Vec<(Vec<[E; N]>, MerkleTree<H>, Vec<usize>)> = Vec::new();
    for _ in 0..layers {
        let rows: Vec<[E; N]> = winter_utils::transpose_slice(&cur);
        if parts > rows.len() {
            return None;
        }
        let idx = leaf_indexes(rows.len(), cur.len(), N, parts);
        let mut leaves = vec![<H as Hasher>::Digest::default(); rows.len()];
        for (r, row) in rows.iter().enumerate() {
            leaves[idx[r]] = H::hash_elements(row);
        }
        let tree = MerkleTree::<H>::new(leaves).ok()?;
        commitments.push(*tree.root());
        coin.reseed(*tree.root());
        let alpha: E = coin.draw().ok()?;
        cur = fold_rows::<B, E, N>(&rows, &idx, coord, alpha);
        stored.push((rows, tree, idx));
    }
    // remainder: coefficients of the last layer, truncated like FriProver does
    let inv_twiddles = fft::get_inv_twiddles::<B>(cur.len());
    let mut rem = cur.clone();
    fft::interpolate_poly_with_offset(&mut rem, &inv_twiddles, B::GENERATOR);
    rem.truncate((cur.len() / options.blowup_factor()).max(1));
    if STRETCHED_REMAINDER.with(|c| c.get()) {
        let m = cur.len();
        let w = B::get_root_of_unity((2 * m).ilog2());
        let xs: Vec<E> = (0..m).map(|p| E::from(B::GENERATOR * w.exp_vartime(((p as u64) as u32).into()))).collect();
        let mut r = winter_math::polynom::interpolate(&xs, &cur, false);
        let keep = rem.len();
        if r[keep..].iter().any(|c| *c != E::ZERO) {
            return None;
        }
        r.truncate(keep);
        r.resize(2 * keep, E::ZERO);
        rem = r;
    }
    commitments.push(H::hash_elements(&rem));
    // query phase
    let mut bytes = vec![layers as u8];
    let mut pos = positions.to_vec();
    let mut dsize = f0.len();
    for (rows, tree, idx) in &stored {
        pos = winter_fri::folding::fold_positions(&pos, dsize, N);
        let leaf_pos: Vec<usize> = pos.iter().map(|&p| idx[p]).collect();
        let proof = tree.prove_batch(&leaf_pos).ok()?;
        let mut values = Vec::new();
        for &p in &pos {
            for e in rows[p].iter() {
                e.write_into(&mut values);
            }
        }
        let paths = proof.serialize_nodes();
        bytes.extend_from_slice(&(values.len() as u32).to_le_bytes());
        bytes.extend_from_slice(&values);
        bytes.extend_from_slice(&(paths.len() as u32).to_le_bytes());
        bytes.extend_from_slice(&paths);
        dsize /= N;
    }
    let mut rb = Vec::new();
    for e in &rem {
        e.write_into(&mut rb);
    }
    bytes.extend_from_slice(&(rb.len() as u16).to_le_bytes());
    bytes.extend_from_slice(&rb);
    bytes.push(log_parts);
    let proof = FriProof::read_from_bytes(&bytes).ok()?;
    Some(ManualProof { proof, commitments })
}

pub fn manual_prove<B: Fld, E: FieldElement<BaseField = B>, H: ElementHasher<BaseField = B>>(f0: &[E], options: &FriOptions, positions: &[usize], log_parts: u8, coord: RowCoord) -> Option<ManualProof<H>> {
    match options.folding_factor() {
        2 => manual_prove_n::<B, E, H, 2>(f0, options, positions, log_parts, coord),
        4 => manual_prove_n::<B, E, H, 4>(f0, options, positions, log_parts, coord),
        8 => manual_prove_n::<B, E, H, 8>(f0, options, positions, log_parts, coord),
        _ => manual_prove_n::<B, E, H, 16>(f0, options, positions, log_parts, coord),
    }
}

/// a function on the whole domain that every sequence of `layers` folds under the coordinate
/// function `coord` (with any challenges) turns into a polynomial with `rem_coeffs` coefficients:
/// N^layers random polynomials on the last domain, unfolded `layers` times
pub fn unfolded_function<B: Fld, E: FieldElement<BaseField = B>>(rng: &mut crate::prng::Rng, domain: usize, options: &FriOptions, log_parts: u8, coord: RowCoord, rem_coeffs: usize) -> Option<Vec<E>> {
    fn go<B: Fld, E: FieldElement<BaseField = B>, const N: usize>(rng: &mut crate::prng::Rng, domain: usize, layers: usize, parts: usize, coord: RowCoord, rem_coeffs: usize) -> Option<Vec<E>> {
        let last = domain / N.pow(layers as u32);
        // stretched variant: the small polynomials are evaluated over the first half of a domain of twice the size
        let stretched = STRETCHED_REMAINDER.with(|c| c.get());
        let mut level: Vec<Vec<E>> = (0..N.pow(layers as u32))
            .map(|_| {
                let poly = crate::gen::rand_vec::<B, E>(rng, rem_coeffs);
                if stretched {
                    let mut v = evaluate::<B, E>(&poly, 2 * last);
                    v.truncate(last);
                    v
                } else {
                    evaluate::<B, E>(&poly, last)
                }
            })
            .collect();
        let mut size = last;
        for _ in 0..layers {
            let rows = size;
            if parts > rows {
                return None;
            }
            let idx = leaf_indexes(rows, rows * N, N, parts);
            level = level.chunks(N).map(|hs| unfold_rows::<B, E, N>(hs, &idx, coord)).collect();
            size *= N;
        }
        level.pop()
    }
    let layers = options.num_fri_layers(domain);
    let parts = 1usize << log_parts;
    match options.folding_factor() {
        2 => go::<B, E, 2>(rng, domain, layers, parts, coord, rem_coeffs),
        4 => go::<B, E, 4>(rng, domain, layers, parts, coord, rem_coeffs),
        8 => go::<B, E, 8>(rng, domain, layers, parts, coord, rem_coeffs),
        _ => go::<B, E, 16>(rng, domain, layers, parts, coord, rem_coeffs),
    }
}

/// "rows made up after the queries": the honest proof of a LOW-degree polynomial `g` is taken and, in
/// the rows of the first layer that the queries open, the queried entries are overwritten with the
/// values of another function `f` at those positions while one unqueried entry of the same row is
/// adjusted so that the row still folds to the same value (folding is linear in the row). All
/// folding and remainder checks then pass for the claim "f is low degree"; only the Merkle opening of
/// the first layer can tell. `parts_byte` is written into the proof's partition field unchanged
/// (a value with 2^byte > rows makes every leaf index collapse to 0).
pub fn forged_first_layer<B: Fld, E: FieldElement<BaseField = B>, H: ElementHasher<BaseField = B>>(
    g: &[E],
    f: &[E],
    options: &FriOptions,
    positions: &[usize],
    parts_byte: u8,
) -> Option<ManualProof<H>> {
    fn go<B: Fld, E: FieldElement<BaseField = B>, H: ElementHasher<BaseField = B>, const N: usize>(g: &[E], f: &[E], options: &FriOptions, positions: &[usize], parts_byte: u8) -> Option<ManualProof<H>> {
        use winter_crypto::RandomCoin;
        if options.num_fri_layers(g.len()) == 0 {
            return None;
        }
        let honest = manual_prove_n::<B, E, H, N>(g, options, positions, 0, RowCoord::DomainPosition)?;
        let mut bytes = honest.proof.to_bytes();
        // first layer's challenge
        let mut coin = DefaultRandomCoin::<H>::new(&[]);
        coin.reseed(honest.commitments[0]);
        let alpha: E = coin.draw().ok()?;
        let domain = g.len();
        let rows = domain / N;
        let gen = B::get_root_of_unity(domain.ilog2());
        let w = B::get_root_of_unity(N.ilog2());
        let folded = winter_fri::folding::fold_positions(positions, domain, N);
        // layout of the serialized proof: [layers u8][u32 len][values of layer 0 ...]
        let values_off = 1 + 4;
        let eb = E::ELEMENT_BYTES;
        for (k, &r) in folded.iter().enumerate() {
            let mut row: Vec<E> = (0..N).map(|l| g[r + l * rows]).collect();
            let queried: Vec<usize> = (0..N).filter(|l| positions.contains(&(r + l * rows))).collect();
            let free = (0..N).find(|l| !queried.contains(l))?;
            // Lagrange coefficients of the row's nodes x_r * w^l at alpha
            let xr = B::GENERATOR * gen.exp_vartime(B::pi(r as u128));
            let nodes: Vec<E> = (0..N).scan(B::ONE, |wl, _| { let v = E::from(xr * *wl); *wl *= w; Some(v) }).collect();
            let coef = |l: usize| -> E {
                let mut num = E::ONE;
                let mut den = E::ONE;
                for m in 0..N {
                    if m != l {
                        num *= alpha - nodes[m];
                        den *= nodes[l] - nodes[m];
                    }
                }
                num / den
            };
            let mut delta = E::ZERO;
            for &l in &queried {
                let new = f[r + l * rows];
                delta += coef(l) * (new - row[l]);
                row[l] = new;
            }
            let cf = coef(free);
            if cf == E::ZERO {
                return None;
            }
            row[free] -= delta / cf;
            // overwrite row k of the first layer's values
            let at = values_off + k * N * eb;
            let mut rb = Vec::new();
            for e in &row {
                e.write_into(&mut rb);
            }
            bytes.get_mut(at..at + N * eb)?.copy_from_slice(&rb);
        }
        let last = bytes.len() - 1;
        bytes[last] = parts_byte;
        Some(ManualProof { proof: FriProof::read_from_bytes(&bytes).ok()?, commitments: honest.commitments })
    }
    match options.folding_factor() {
        2 => go::<B, E, H, 2>(g, f, options, positions, parts_byte),
        4 => go::<B, E, H, 4>(g, f, options, positions, parts_byte),
        8 => go::<B, E, H, 8>(g, f, options, positions, parts_byte),
        _ => go::<B, E, H, 16>(g, f, options, positions, parts_byte),
    }
}
