//! Helpers around the stand-alone FRI prover/verifier (used by C05, C12, C15).
use winter_crypto::{DefaultRandomCoin, ElementHasher, RandomCoin};
use winter_fri::{DefaultProverChannel, DefaultVerifierChannel, FriOptions, FriProof, FriProver, FriVerifier, VerifierError};
use winter_math::{fft, FieldElement};
use winter_utils::{Deserializable, Serializable};

use crate::fields::Fld;

/// evaluations of the polynomial `p` (coefficients, len <= domain) over the FRI domain
/// offset * w^i, i < domain_size, computed with the library FFT (monitored by C09)
pub fn evaluate<B: Fld, E: FieldElement<BaseField = B>>(p: &[E], domain_size: usize) -> Vec<E> {
    let mut c = p.to_vec();
    c.resize(domain_size, E::ZERO);
    let tw = fft::get_twiddles::<B>(domain_size);
    // shift by the domain offset: p(offset * x)
    let offset = B::GENERATOR;
    let mut pw = B::ONE;
    for x in c.iter_mut() {
        *x = *x * E::from(pw);
        pw *= offset;
    }
    fft::evaluate_poly(&mut c, &tw);
    c
}

pub struct Instance<H: ElementHasher> {
    pub proof: FriProof,
    pub commitments: Vec<H::Digest>,
    pub positions: Vec<usize>,
    pub domain_size: usize,
    pub options: FriOptions,
}

pub type Chan<E, H> = DefaultProverChannel<E, H, DefaultRandomCoin<H>>;

/// honest proof for `evaluations`; positions are drawn from the channel unless given
pub fn prove<B: Fld, E: FieldElement<BaseField = B>, H: ElementHasher<BaseField = B>>(
    prover: &mut FriProver<B, E, Chan<E, H>, H>,
    evaluations: Vec<E>,
    options: &FriOptions,
    num_queries: usize,
    positions: Option<Vec<usize>>,
) -> Instance<H> {
    let domain_size = evaluations.len();
    let mut channel = Chan::<E, H>::new(domain_size, num_queries);
    prover.build_layers(&mut channel, evaluations);
    let positions = positions.unwrap_or_else(|| channel.draw_query_positions(0));
    let proof = prover.build_proof(&positions);
    Instance { proof, commitments: channel.layer_commitments().to_vec(), positions, domain_size, options: options.clone() }
}

pub fn verify<B: Fld, E: FieldElement<BaseField = B>, H: ElementHasher<BaseField = B>>(
    proof: FriProof,
    commitments: Vec<H::Digest>,
    queried: &[E],
    positions: &[usize],
    max_degree: usize,
    domain_size: usize,
    options: &FriOptions,
) -> Result<(), String> {
    let mut channel = DefaultVerifierChannel::<E, H>::new(proof, commitments, domain_size, options.folding_factor()).map_err(|e| format!("channel: {e}"))?;
    let mut coin = DefaultRandomCoin::<H>::new(&[]);
    let verifier = FriVerifier::new(&mut channel, &mut coin, options.clone(), max_degree).map_err(|e: VerifierError| format!("new: {e}"))?;
    verifier.verify(&mut channel, queried, positions).map_err(|e| format!("verify: {e}"))
}

pub fn roundtrip(proof: &FriProof) -> Result<FriProof, String> {
    FriProof::read_from_bytes(&proof.to_bytes()).map_err(|e| format!("{e}"))
}

/// well-formed schedule: every folded layer keeps at least 2 rows... (domain shrinks by the folding
/// factor while it exceeds the maximal remainder size; the remainder must keep >= 1 coefficient)
pub fn schedule_well_formed(domain_size: usize, options: &FriOptions) -> bool {
    let mut d = domain_size;
    let max_rem = (options.remainder_max_degree() + 1) * options.blowup_factor();
    while d > max_rem {
        if d < options.folding_factor() * 2 {
            return false;
        }
        d /= options.folding_factor();
    }
    // remainder polynomial has d / blowup coefficients
    d >= options.blowup_factor() && d / options.blowup_factor() >= 1
}
