//! Runtime-monitoring harness for Nashtare/winterfell (see /verif/DESIGN.md).
pub mod chunks;
pub mod coin;
pub mod fields;
pub mod frih;
pub mod gen;
pub mod genair;
pub mod json;
pub mod mutate;
pub mod prng;
pub mod refmath;
pub mod report;
pub mod rescue_consts;
pub mod rescue_ref;
pub mod seeds;
pub mod stark;

pub use json::{hex, J};
pub use prng::{fnv, Rng};
pub use report::{catch, Finish, Run, State, Tier};
