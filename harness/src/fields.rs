//! Uniform view of the three base fields for the monitors: residue <-> element conversions,
//! access to the internal representation, and the documented representation range.
use winter_math::{
    fields::{f128, f62, f64},
    ExtensibleField, FieldElement, StarkField,
};
use winter_utils::AsBytes;

use crate::refmath::{Fp, F128, F62, F64};

pub trait Fld: StarkField + ExtensibleField<2> + ExtensibleField<3> + 'static {
    const NAME: &'static str;
    const FP: Fp;
    /// exclusive bound on the internal representation, as documented by the field
    const RAW_LIMIT: u128;
    /// internal = residue * MONT mod p (1 for the canonical field)
    const MONT: u128;
    fn from_res(v: u128) -> Self;
    fn res(&self) -> u128;
    fn raw(&self) -> u128;
    /// element whose internal representation is `raw` (raw < RAW_LIMIT)
    fn from_raw(raw: u128) -> Self;
    fn pi(v: u128) -> Self::PositiveInteger;
    fn pi_u128(v: Self::PositiveInteger) -> u128;
    /// odd prime factors of p - 1 (verified at run time against p - 1 and for primality)
    const ODD_FACTORS: &'static [u128];
    /// operations that only some fields publish
    fn mul_small_opt(self, _k: u32) -> Option<Self> {
        None
    }
    fn exp7_opt(self) -> Option<Self> {
        None
    }
}

impl Fld for f64::BaseElement {
    const NAME: &'static str = "f64";
    const FP: Fp = F64;
    const RAW_LIMIT: u128 = crate::refmath::P64;
    const MONT: u128 = 0xFFFF_FFFF; // 2^64 mod p = 2^32 - 1
    fn from_res(v: u128) -> Self {
        f64::BaseElement::new(v as u64)
    }
    fn res(&self) -> u128 {
        self.as_int() as u128
    }
    fn raw(&self) -> u128 {
        self.inner() as u128
    }
    fn from_raw(raw: u128) -> Self {
        f64::BaseElement::from_mont(raw as u64)
    }
    fn pi(v: u128) -> u64 {
        v as u64
    }
    fn pi_u128(v: u64) -> u128 {
        v as u128
    }
    const ODD_FACTORS: &'static [u128] = &[3, 5, 17, 257, 65537];
    fn mul_small_opt(self, k: u32) -> Option<Self> {
        Some(self.mul_small(k))
    }
    fn exp7_opt(self) -> Option<Self> {
        Some(self.exp7())
    }
}

impl Fld for f62::BaseElement {
    const NAME: &'static str = "f62";
    const FP: Fp = F62;
    const RAW_LIMIT: u128 = 2 * crate::refmath::P62;
    const MONT: u128 = (1u128 << 64) % crate::refmath::P62;
    fn from_res(v: u128) -> Self {
        f62::BaseElement::new(v as u64)
    }
    fn res(&self) -> u128 {
        self.as_int() as u128
    }
    fn raw(&self) -> u128 {
        let b = self.as_bytes();
        u64::from_le_bytes(b.try_into().unwrap()) as u128
    }
    fn from_raw(raw: u128) -> Self {
        // the only public way to an arbitrary internal image is the (unsafe) slice reinterpretation
        let v = [raw as u64];
        let bytes = unsafe { core::slice::from_raw_parts(v.as_ptr() as *const u8, 8) };
        let e = unsafe { <f62::BaseElement as FieldElement>::bytes_as_elements(bytes) }.expect("aligned");
        e[0]
    }
    fn pi(v: u128) -> u64 {
        v as u64
    }
    fn pi_u128(v: u64) -> u128 {
        v as u128
    }
    const ODD_FACTORS: &'static [u128] = &[13, 17, 37957];
}

impl Fld for f128::BaseElement {
    const NAME: &'static str = "f128";
    const FP: Fp = F128;
    const RAW_LIMIT: u128 = crate::refmath::P128;
    const MONT: u128 = 1;
    fn from_res(v: u128) -> Self {
        f128::BaseElement::new(v)
    }
    fn res(&self) -> u128 {
        self.as_int()
    }
    fn raw(&self) -> u128 {
        let b = self.as_bytes();
        u128::from_le_bytes(b.try_into().unwrap())
    }
    fn from_raw(raw: u128) -> Self {
        f128::BaseElement::new(raw)
    }
    fn pi(v: u128) -> u128 {
        v
    }
    fn pi_u128(v: u128) -> u128 {
        v
    }
    const ODD_FACTORS: &'static [u128] = &[29, 181, 286619, 11394379, 18053749339];
}

/// residue whose internal image is `raw`
pub fn res_of_raw<B: Fld>(raw: u128) -> u128 {
    let f = B::FP;
    f.mul(raw % f.p, f.inv(B::MONT))
}

/// Boundary values (as plain integers < 2^128); the callers reduce / filter them.
pub fn boundary_ints(p: u128) -> Vec<u128> {
    let mut v: Vec<u128> = vec![0, 1, 2, 3, 7, 8, 255, 256, 65535, 65536];
    for k in [31u32, 32, 33, 39, 40, 61, 62, 63, 64, 65, 96, 127] {
        let b = 1u128 << k;
        v.extend_from_slice(&[b - 2, b - 1, b, b + 1, b + 2]);
    }
    let g64 = 0xFFFF_FFFF_0000_0000u128; // 2^64 - 2^32
    for d in 0..4u128 {
        v.push(g64 + d);
        v.push(g64 - d);
        v.push(p - 1 - d);
        v.push(p + d);
        v.push((p - 1) / 2 + d);
        v.push((p - 1) / 2 - d);
        v.push((p + 1) / 2 + d);
        v.push(2 * (p % (1u128 << 127)) - 1 - d); // 2p-1-d for the 62/64-bit primes
        v.push(0x7FFF_FFFF_8000_0000 + d); // M/2 region of the 64-bit prime
        v.push(0x7FFF_FFFF_C000_0000 + d);
        v.push(0xFFFF_FFFFu128 * 0xFFFF_FFFF + d);
    }
    v.push(u64::MAX as u128);
    v.push(u64::MAX as u128 - 1);
    v.push(u128::MAX);
    v.push(u128::MAX - 1);
    v.push(0xFFFF_FFFF);
    v.push(0xFFFF_FFFE_0000_0001); // R2 of the 64-bit field
    v.push(0xFFFF_FFFF_FFFF_FFFF_FFFF_FFFF);
    v.sort();
    v.dedup();
    v
}

/// Boundary *elements* of a field: boundary integers taken as residues and as internal images.
pub fn boundary_elements<B: Fld>() -> Vec<B> {
    let p = B::FP.p;
    let mut out: Vec<B> = Vec::new();
    let mut seen = std::collections::BTreeSet::new();
    for v in boundary_ints(p) {
        if v < p {
            let e = B::from_res(v);
            if seen.insert(e.raw()) {
                out.push(e);
            }
        }
        if v < B::RAW_LIMIT {
            let e = B::from_raw(v);
            if seen.insert(e.raw()) {
                out.push(e);
            }
        }
    }
    out
}

// EXTENSION ELEMENTS
// ================================================================================================
use winter_math::{
    fields::{CubeExtension, QuadExtension},
    ExtensionOf,
};

/// uniform access to the coefficients of quadratic / cubic extension elements
pub trait ExtEl<B: Fld, const N: usize>:
    FieldElement<BaseField = B, PositiveInteger = <B as FieldElement>::PositiveInteger> + ExtensionOf<B> + From<B>
{
    fn from_coeffs(c: [B; N]) -> Self;
    fn coeffs(&self) -> [B; N];
    fn ref_ext() -> crate::refmath::Ext<N>;
    fn supported() -> bool;
}

impl<B: Fld> ExtEl<B, 2> for QuadExtension<B> {
    fn from_coeffs(c: [B; 2]) -> Self {
        QuadExtension::new(c[0], c[1])
    }
    fn coeffs(&self) -> [B; 2] {
        self.to_base_elements()
    }
    fn ref_ext() -> crate::refmath::Ext<2> {
        match B::NAME {
            "f62" => crate::refmath::quad62(),
            "f64" => crate::refmath::quad64(),
            _ => crate::refmath::quad128(),
        }
    }
    fn supported() -> bool {
        QuadExtension::<B>::is_supported()
    }
}

impl<B: Fld> ExtEl<B, 3> for CubeExtension<B> {
    fn from_coeffs(c: [B; 3]) -> Self {
        CubeExtension::new(c[0], c[1], c[2])
    }
    fn coeffs(&self) -> [B; 3] {
        self.to_base_elements()
    }
    fn ref_ext() -> crate::refmath::Ext<3> {
        match B::NAME {
            "f62" => crate::refmath::cube62(),
            "f64" => crate::refmath::cube64(),
            _ => panic!("no cubic extension of f128"),
        }
    }
    fn supported() -> bool {
        CubeExtension::<B>::is_supported()
    }
}

pub fn ext_res<B: Fld, E: ExtEl<B, N>, const N: usize>(e: &E) -> [u128; N] {
    let c = e.coeffs();
    let mut r = [0u128; N];
    for i in 0..N {
        r[i] = c[i].res();
    }
    r
}
pub fn ext_from_res<B: Fld, E: ExtEl<B, N>, const N: usize>(r: [u128; N]) -> E {
    let mut c = [B::ZERO; N];
    for i in 0..N {
        c[i] = B::from_res(r[i]);
    }
    E::from_coeffs(c)
}
