//! Minimal JSON value + writer (no third-party crates are available beyond the repo's lock file).
use std::collections::BTreeMap;

#[derive(Clone, Debug)]
pub enum J {
    Null,
    B(bool),
    I(i128),
    F(f64),
    S(String),
    A(Vec<J>),
    O(Vec<(String, J)>),
    /// pre-serialized JSON, written verbatim
    Raw(String),
}

impl J {
    pub fn s<T: AsRef<str>>(x: T) -> J {
        J::S(x.as_ref().to_string())
    }
    pub fn i<T: TryInto<i128>>(x: T) -> J {
        J::I(x.try_into().ok().unwrap_or(i128::MAX))
    }
    pub fn obj(pairs: Vec<(&str, J)>) -> J {
        J::O(pairs.into_iter().map(|(k, v)| (k.to_string(), v)).collect())
    }
    pub fn map(m: &BTreeMap<String, u64>) -> J {
        J::O(m.iter().map(|(k, v)| (k.clone(), J::I(*v as i128))).collect())
    }
    pub fn arr_s<T: AsRef<str>>(v: &[T]) -> J {
        J::A(v.iter().map(|x| J::s(x.as_ref())).collect())
    }
    pub fn write(&self, out: &mut String) {
        match self {
            J::Null => out.push_str("null"),
            J::B(b) => out.push_str(if *b { "true" } else { "false" }),
            J::I(i) => out.push_str(&i.to_string()),
            J::F(f) => {
                if f.is_finite() {
                    out.push_str(&format!("{:.3}", f))
                } else {
                    out.push_str("0")
                }
            },
            J::S(s) => {
                out.push('"');
                for c in s.chars() {
                    match c {
                        '"' => out.push_str("\\\""),
                        '\\' => out.push_str("\\\\"),
                        '\n' => out.push_str("\\n"),
                        '\r' => out.push_str("\\r"),
                        '\t' => out.push_str("\\t"),
                        c if (c as u32) < 0x20 => out.push_str(&format!("\\u{:04x}", c as u32)),
                        c => out.push(c),
                    }
                }
                out.push('"');
            },
            J::Raw(r) => out.push_str(r),
            J::A(v) => {
                out.push('[');
                for (i, x) in v.iter().enumerate() {
                    if i > 0 {
                        out.push(',');
                    }
                    x.write(out);
                }
                out.push(']');
            },
            J::O(v) => {
                out.push('{');
                for (i, (k, x)) in v.iter().enumerate() {
                    if i > 0 {
                        out.push(',');
                    }
                    J::S(k.clone()).write(out);
                    out.push(':');
                    x.write(out);
                }
                out.push('}');
            },
        }
    }
    pub fn to_string(&self) -> String {
        let mut s = String::new();
        self.write(&mut s);
        s
    }
}

pub fn hex(b: &[u8]) -> String {
    let mut s = String::with_capacity(b.len() * 2);
    for x in b {
        s.push_str(&format!("{:02x}", x));
    }
    s
}
