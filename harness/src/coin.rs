//! Executable specification of the public coin (`CoinModel`, built on the Hasher API only) and a
//! recording wrapper (`RecCoin`) that is substituted through the `RandomCoin` type parameter of
//! the prover and the verifier and appends every operation to a thread-local event log.
use std::cell::RefCell;

use winter_crypto::{DefaultRandomCoin, Digest, ElementHasher, Hasher, RandomCoin, RandomCoinError};
use winter_math::{FieldElement, StarkField};

use crate::fields::Fld;

// MODEL
// ================================================================================================

pub struct CoinModel<H: ElementHasher> {
    pub seed: H::Digest,
    pub ctr: u64,
}

impl<B: Fld, H: ElementHasher<BaseField = B>> CoinModel<H> {
    pub fn new(seed: &[B]) -> Self {
        CoinModel { seed: H::hash_elements(seed), ctr: 0 }
    }
    pub fn from_digest(seed: H::Digest) -> Self {
        CoinModel { seed, ctr: 0 }
    }
    pub fn reseed(&mut self, d: H::Digest) {
        self.seed = H::merge(&[self.seed, d]);
        self.ctr = 0;
    }
    fn next(&mut self) -> [u8; 32] {
        self.ctr += 1;
        H::merge_with_int(self.seed, self.ctr).as_bytes()
    }
    /// rejection sampling: the first ELEMENT_BYTES of the next output, every coefficient must be a
    /// canonical residue; at most 1000 attempts. Returns the residues of the coefficients.
    pub fn draw(&mut self, degree: usize) -> Option<Vec<u128>> {
        let eb = B::ELEMENT_BYTES;
        for _ in 0..1000 {
            let out = self.next();
            let mut coeffs = Vec::with_capacity(degree);
            let mut ok = true;
            for k in 0..degree {
                let mut b = [0u8; 16];
                b[..eb].copy_from_slice(&out[k * eb..(k + 1) * eb]);
                let v = u128::from_le_bytes(b);
                if v >= B::FP.p {
                    ok = false;
                    break;
                }
                coeffs.push(v);
            }
            if ok {
                return Some(coeffs);
            }
        }
        None
    }
    pub fn leading_zeros(&self, value: u64) -> u32 {
        let b = H::merge_with_int(self.seed, value).as_bytes();
        u64::from_le_bytes(b[..8].try_into().unwrap()).trailing_zeros()
    }
    pub fn draw_integers(&mut self, n: usize, domain: usize, nonce: u64) -> Vec<usize> {
        self.seed = H::merge_with_int(self.seed, nonce);
        self.ctr = 0;
        (0..n).map(|_| (u64::from_le_bytes(self.next()[..8].try_into().unwrap()) & (domain as u64 - 1)) as usize).collect()
    }
}

// RECORDING COIN
// ================================================================================================

#[derive(Clone, Debug, PartialEq)]
pub enum Ev {
    /// canonical bytes of the seed elements
    New { seed: Vec<u8>, elements: usize },
    Reseed { data: [u8; 32] },
    /// serialized drawn element (canonical bytes), extension degree
    Draw { degree: usize, value: Option<Vec<u8>> },
    Clz { value: u64, result: u32 },
    Ints { n: usize, domain: usize, nonce: u64, result: Option<Vec<usize>> },
}

#[derive(Clone, Debug, PartialEq)]
pub struct Event {
    pub role: char,
    pub coin: u64,
    pub ev: Ev,
}

thread_local! {
    static LOG: RefCell<Vec<Event>> = const { RefCell::new(Vec::new()) };
    static ROLE: RefCell<char> = const { RefCell::new('?') };
    static NEXT: RefCell<u64> = const { RefCell::new(0) };
    /// prover-side proof-of-work search calls check_leading_zeros millions of times; they are
    /// counted, not logged
    static CLZ_CALLS: RefCell<u64> = const { RefCell::new(0) };
}

pub fn set_role(r: char) {
    ROLE.with(|x| *x.borrow_mut() = r);
}
pub fn take_log() -> Vec<Event> {
    LOG.with(|l| std::mem::take(&mut *l.borrow_mut()))
}
pub fn clz_calls() -> u64 {
    CLZ_CALLS.with(|c| std::mem::take(&mut *c.borrow_mut()))
}
fn push(coin: u64, ev: Ev) {
    let role = ROLE.with(|r| *r.borrow());
    LOG.with(|l| l.borrow_mut().push(Event { role, coin, ev }));
}

pub struct RecCoin<H: ElementHasher> {
    inner: DefaultRandomCoin<H>,
    id: u64,
}

impl<B: StarkField, H: ElementHasher<BaseField = B>> RandomCoin for RecCoin<H> {
    type BaseField = B;
    type Hasher = H;

    fn new(seed: &[B]) -> Self {
        let id = NEXT.with(|n| {
            let mut n = n.borrow_mut();
            *n += 1;
            *n
        });
        let mut bytes = Vec::new();
        for e in seed {
            e.write_into(&mut bytes);
        }
        push(id, Ev::New { seed: bytes, elements: seed.len() });
        RecCoin { inner: DefaultRandomCoin::new(seed), id }
    }
    fn reseed(&mut self, data: <H as Hasher>::Digest) {
        push(self.id, Ev::Reseed { data: data.as_bytes() });
        self.inner.reseed(data)
    }
    fn check_leading_zeros(&self, value: u64) -> u32 {
        let r = self.inner.check_leading_zeros(value);
        if ROLE.with(|x| *x.borrow()) == 'P' {
            CLZ_CALLS.with(|c| *c.borrow_mut() += 1);
        } else {
            push(self.id, Ev::Clz { value, result: r });
        }
        r
    }
    fn draw<E: FieldElement<BaseField = B>>(&mut self) -> Result<E, RandomCoinError> {
        let r = self.inner.draw::<E>();
        push(self.id, Ev::Draw { degree: E::EXTENSION_DEGREE, value: r.as_ref().ok().map(|e| e.to_bytes()) });
        r
    }
    fn draw_integers(&mut self, n: usize, domain: usize, nonce: u64) -> Result<Vec<usize>, RandomCoinError> {
        let r = self.inner.draw_integers(n, domain, nonce);
        push(self.id, Ev::Ints { n, domain, nonce, result: r.as_ref().ok().cloned() });
        r
    }
}
