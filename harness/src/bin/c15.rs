//! C15 FRI completeness and the folding identity: honest proofs for polynomials of degree <= bound
//! must be accepted (also after the byte round trip and from a reused prover); apply_drp must equal
//! the coefficient-domain definition of folding; position folding and the layer count must equal
//! their closed forms.
use winter_crypto::{
    hashers::{Blake3_192, Blake3_256, Rp62_248, Rp64_256, RpJive64_256, Sha3_256},
    ElementHasher,
};
use winter_fri::{folding, FriOptions, FriProver};
use winter_math::{
    fields::{f128, f62, f64, CubeExtension, QuadExtension},
    FieldElement, StarkField,
};
use winter_utils::transpose_slice;
use wfv::{catch, fields::Fld, frih, gen::*, Finish, Rng, Run, State, J};

#[derive(Clone, Debug)]
struct Params {
    blowup: usize,
    fold: usize,
    rem: usize,
    log_n: usize,
}

fn gen_params(rng: &mut Rng, i: u64) -> Option<Params> {
    let blowup = 1usize << rng.range(1, 7);
    let fold = 1usize << rng.range(1, 4);
    let rem = (1usize << rng.range(0, 8)) - 1;
    // degree bounds 0 and 1 (n = 1, 2) are part of the boundary set
    let log_n = if i % 9 == 0 { rng.range(0, 1) } else { rng.range(0, 10) };
    let domain = (1usize << log_n) * blowup;
    let p = Params { blowup, fold, rem, log_n };
    if domain < 8 || domain > (1 << 13) || !frih::schedule_well_formed(domain, &FriOptions::new(blowup, fold, rem)) {
        return None;
    }
    Some(p)
}

fn poly<B: Fld, E: FieldElement<BaseField = B>>(rng: &mut Rng, n: usize) -> (Vec<E>, &'static str) {
    let mut p = rand_vec::<B, E>(rng, n);
    let kind = match rng.below(6) {
        0 => {
            for c in p.iter_mut().skip(1) {
                *c = E::ZERO;
            }
            "degree-0"
        },
        1 if n >= 2 => {
            for c in p.iter_mut().skip(2) {
                *c = E::ZERO;
            }
            "degree-1"
        },
        2 if n >= 2 => {
            p[n - 1] = E::ZERO;
            if p[n - 2] == E::ZERO {
                p[n - 2] = E::ONE;
            }
            "degree-bound-minus-1"
        },
        3 => {
            p[n - 1] = rand_nonzero::<B, E>(rng);
            "degree-exactly-bound"
        },
        4 => {
            for c in p.iter_mut() {
                *c = E::ZERO;
            }
            "zero-polynomial"
        },
        _ => "random",
    };
    (p, kind)
}

fn positions(rng: &mut Rng, domain: usize, fold: usize) -> (Vec<usize>, &'static str) {
    let max = 255.min(domain - 1);
    match rng.below(6) {
        0 => (vec![rng.usize(domain)], "one-position"),
        1 => ((0..max).map(|_| rng.usize(domain)).collect(), "255-or-max-positions-with-duplicates"),
        2 => {
            // positions that collide after folding
            let p = rng.usize(domain / fold);
            let mut v: Vec<usize> = (0..fold.min(max)).map(|k| p + k * (domain / fold)).collect();
            rng.shuffle(&mut v);
            (v, "colliding-after-folding")
        },
        3 => {
            let p = rng.usize(domain);
            (vec![p; rng.range(2, 5).min(max)], "repeated-position")
        },
        _ => ((0..rng.range(1, 40.min(max))).map(|_| rng.usize(domain)).collect(), "random-positions"),
    }
}

fn accept<B: Fld, E: FieldElement<BaseField = B>, H: ElementHasher<BaseField = B>>(rng: &mut Rng, st: &mut State, i: u64, tag: &str) {
    let Some(pr) = gen_params(rng, i) else {
        st.count("params.rejected_as_ill_formed");
        return;
    };
    let n = 1usize << pr.log_n;
    let domain = n * pr.blowup;
    let opts = FriOptions::new(pr.blowup, pr.fold, pr.rem);
    let (p, pkind) = poly::<B, E>(rng, n);
    let evals = frih::evaluate::<B, E>(&p, domain);
    let (pos, qkind) = positions(rng, domain, pr.fold);
    let use_drawn = rng.chance(1, 4);
    let mut prover = FriProver::<B, E, frih::Chan<E, H>, H>::new(opts.clone());
    // the reused prover gets, in half of the cases, a polynomial over a domain of another size
    let first = (n, domain, evals, pos);
    let second = {
        let mut alt = None;
        if rng.chance(1, 2) {
            for _ in 0..8 {
                let log_n2 = rng.range(0, 10);
                let d2 = (1usize << log_n2) * pr.blowup;
                if log_n2 != pr.log_n && d2 >= 8 && d2 <= (1 << 13) && frih::schedule_well_formed(d2, &opts) {
                    let n2 = 1usize << log_n2;
                    let (p2, _) = poly::<B, E>(rng, n2);
                    let (pos2, _) = positions(rng, d2, pr.fold);
                    alt = Some((n2, d2, frih::evaluate::<B, E>(&p2, d2), pos2));
                    break;
                }
            }
        }
        alt
    };
    let resized = second.is_some();
    let rounds = [first.clone(), second.unwrap_or(first)];
    let desc = |what: &str, err: String| {
        J::obj(vec![("config", J::s(tag)), ("blowup", J::i(pr.blowup)), ("folding", J::i(pr.fold)), ("remainder_max_degree", J::i(pr.rem)), ("poly_size", J::i(n)), ("domain", J::i(domain)), ("second_round_domain", J::i(rounds[1].1)), ("polynomial", J::s(pkind)), ("positions", J::s(qkind)), ("what", J::s(what)), ("error", J::s(err))])
    };
    let sig = |what: &str| format!("{what}:n{}", if n <= 2 { n.to_string() } else { "ge4".to_string() });
    for round in 0..2 {
        // the second round reuses the prover instance
        let (n, domain, evals, pos) = (rounds[round].0, rounds[round].1, &rounds[round].2, &rounds[round].3);
        let r = catch(|| {
            let q = if use_drawn { None } else { Some(pos.clone()) };
            frih::prove::<B, E, H>(&mut prover, evals.clone(), &opts, pos.len().max(1).min(domain - 1), q)
        });
        let inst = match r {
            Ok(x) => x,
            Err(pi) => {
                if tag.starts_with("f62^3") && wfv::report::is_coin_exhaustion(&pi.msg) {
                    // the channel's coin ran out of its 1000 rejection-sampling attempts (documented limit; about
                    // 1.4e-7 per draw for 24-byte elements of three 62-bit coefficients): not a verdict on FRI
                    st.count("outside_claim.coin_exhausted");
                } else {
                    st.violation(format!("prover-panic:{}", pi.sig), desc("prover panic", pi.msg));
                }
                return;
            },
        };
        let layers = inst.proof.num_layers();
        let expected_layers = {
            let mut d = domain;
            let mut l = 0;
            while d > (pr.rem + 1) * pr.blowup {
                d /= pr.fold;
                l += 1;
            }
            l
        };
        if layers != expected_layers || opts.num_fri_layers(domain) != expected_layers {
            st.violation("num_fri_layers", desc("layer count", format!("{layers} vs {expected_layers}")));
        }
        let queried: Vec<E> = inst.positions.iter().map(|&p| evals[p]).collect();
        // directly, and after the byte round trip
        let direct = catch(|| frih::verify::<B, E, H>(inst.proof.clone(), inst.commitments.clone(), &queried, &inst.positions, n - 1, domain, &opts));
        let rt = frih::roundtrip(&inst.proof);
        let after = match &rt {
            Ok(p2) => catch(|| frih::verify::<B, E, H>(p2.clone(), inst.commitments.clone(), &queried, &inst.positions, n - 1, domain, &opts)),
            Err(e) => Ok(Err(format!("round trip: {e}"))),
        };
        for (what, res) in [("direct", direct), ("after-roundtrip", after)] {
            match res {
                Ok(Ok(())) => {},
                Ok(Err(e)) if tag.starts_with("f62^3") && wfv::report::is_coin_exhaustion(&e) => st.count("outside_claim.coin_exhausted"),
                Ok(Err(e)) => st.violation(sig(&format!("honest-proof-rejected:{what}:round{round}")), desc(what, e)),
                Err(pi) => st.violation(format!("verifier-panic:{}", pi.sig), desc(what, pi.msg)),
            }
        }
        if rt.as_ref().map(|p2| *p2 != inst.proof).unwrap_or(true) {
            st.violation("friproof-roundtrip", desc("round trip", String::new()));
        }
        st.evals += 2;
        st.count(&format!("accepted_or_checked.layers_{}", layers.min(4)));
    }
    st.count(&format!("poly.{pkind}"));
    st.count(&format!("positions.{qkind}"));
    st.count(&format!("folding.{}", pr.fold));
    st.count(&format!("config.{tag}"));
    if n <= 2 {
        st.count("degree_bound_0_or_1");
    }
    if resized {
        st.count("prover_reused_on_other_domain_size");
    }
    st.distinct.insert(wfv::fnv(format!("{tag}{pr:?}{pkind}{qkind}{i}").as_bytes()));
    st.sample(tag, || desc("sample", String::new()));
}

/// degree bounds that are not of the form 2^k - 1: the verifier derives the domain from
/// next_power_of_two(bound + 1) and documents DegreeTruncation for bounds the schedule cannot divide,
/// so every bound m - 1 with m a multiple of folding^layers is a supported one and an honest proof for
/// a polynomial of degree <= m - 1 must be accepted
fn accept_nonpow2<B: Fld, E: FieldElement<BaseField = B>, H: ElementHasher<BaseField = B>>(rng: &mut Rng, st: &mut State, i: u64, tag: &str) {
    let Some(pr) = gen_params(rng, i + 1) else {
        return;
    };
    let n = 1usize << pr.log_n;
    let domain = n * pr.blowup;
    let opts = FriOptions::new(pr.blowup, pr.fold, pr.rem);
    let layers = opts.num_fri_layers(domain);
    let unit = pr.fold.pow(layers as u32);
    // multiples of folding^layers in (n/2, n)
    let cands: Vec<usize> = (1..).map(|k| k * unit).take_while(|&m| m < n).filter(|&m| m > n / 2).collect();
    if cands.is_empty() {
        st.count("nonpow2.no_supported_bound_for_schedule");
        return;
    }
    let m = cands[rng.usize(cands.len())];
    let (mut p, pkind) = poly::<B, E>(rng, m);
    p.resize(n, E::ZERO);
    let evals = frih::evaluate::<B, E>(&p, domain);
    let (pos, qkind) = positions(rng, domain, pr.fold);
    let mut prover = FriProver::<B, E, frih::Chan<E, H>, H>::new(opts.clone());
    let desc = |what: &str, err: String| {
        J::obj(vec![("config", J::s(tag)), ("blowup", J::i(pr.blowup)), ("folding", J::i(pr.fold)), ("remainder_max_degree", J::i(pr.rem)), ("degree_bound", J::i(m - 1)), ("domain", J::i(domain)), ("layers", J::i(layers)), ("polynomial", J::s(pkind)), ("positions", J::s(qkind)), ("what", J::s(what)), ("error", J::s(err))])
    };
    let inst = match catch(|| frih::prove::<B, E, H>(&mut prover, evals.clone(), &opts, pos.len().max(1).min(domain - 1), Some(pos.clone()))) {
        Ok(x) => x,
        Err(pi) => {
            if tag.starts_with("f62^3") && wfv::report::is_coin_exhaustion(&pi.msg) {
                st.count("outside_claim.coin_exhausted");
            } else {
                st.violation(format!("prover-panic:{}", pi.sig), desc("prover panic", pi.msg));
            }
            return;
        },
    };
    let queried: Vec<E> = inst.positions.iter().map(|&p| evals[p]).collect();
    match catch(|| frih::verify::<B, E, H>(inst.proof.clone(), inst.commitments.clone(), &queried, &inst.positions, m - 1, domain, &opts)) {
        Ok(Ok(())) => {},
        Ok(Err(e)) => st.violation("honest-proof-rejected:bound-not-2^k-1", desc("direct", e)),
        Err(pi) => st.violation(format!("verifier-panic:{}", pi.sig), desc("direct", pi.msg)),
    }
    st.evals += 1;
    st.count("nonpow2.accepted_or_checked");
    st.count(&format!("nonpow2.layers_{}", layers.min(3)));
    st.distinct.insert(wfv::fnv(format!("np2{tag}{pr:?}{m}{pkind}{qkind}{i}").as_bytes()));
    st.sample("nonpow2", || desc("sample", String::new()));
}

/// layout of layer openings: a prover written out by hand commits every layer in the partitioned
/// layout (2^k partitions, row r at leaf index(r)); its honest proofs for low-degree polynomials must
/// be accepted exactly like the library prover's, for every partition count the layers can hold
fn accept_partitioned<B: Fld, E: FieldElement<BaseField = B>, H: ElementHasher<BaseField = B>>(rng: &mut Rng, st: &mut State, i: u64, tag: &str) {
    let Some(pr) = gen_params(rng, i + 2) else {
        return;
    };
    let n = 1usize << pr.log_n;
    let domain = n * pr.blowup;
    let opts = FriOptions::new(pr.blowup, pr.fold, pr.rem);
    let layers = opts.num_fri_layers(domain);
    if layers == 0 {
        st.count("partitioned.no_layers");
        return;
    }
    let last_rows = domain / pr.fold.pow(layers as u32);
    let max_log_parts = last_rows.ilog2().min(3) as u8;
    let log_parts = if max_log_parts == 0 { 0 } else { rng.range(0, max_log_parts as usize) as u8 };
    let (p, pkind) = poly::<B, E>(rng, n);
    let evals = frih::evaluate::<B, E>(&p, domain);
    let (pos, qkind) = positions(rng, domain, pr.fold);
    let desc = |what: &str, err: String| {
        J::obj(vec![("config", J::s(tag)), ("blowup", J::i(pr.blowup)), ("folding", J::i(pr.fold)), ("remainder_max_degree", J::i(pr.rem)), ("poly_size", J::i(n)), ("domain", J::i(domain)), ("layers", J::i(layers)), ("partitions", J::i(1usize << log_parts)), ("polynomial", J::s(pkind)), ("positions", J::s(qkind)), ("what", J::s(what)), ("error", J::s(err))])
    };
    let Some(m) = frih::manual_prove::<B, E, H>(&evals, &opts, &pos, log_parts, frih::RowCoord::DomainPosition) else {
        st.count("partitioned.manual_prover_declined");
        return;
    };
    let queried: Vec<E> = pos.iter().map(|&p| evals[p]).collect();
    match catch(|| frih::verify::<B, E, H>(m.proof.clone(), m.commitments.clone(), &queried, &pos, n - 1, domain, &opts)) {
        Ok(Ok(())) => {},
        Ok(Err(e)) => st.violation(format!("honest-proof-rejected:partitions-{}", if log_parts == 0 { "1(hand-written prover)" } else { ">1" }), desc("direct", e)),
        Err(pi) => st.violation(format!("verifier-panic:{}", pi.sig), desc("direct", pi.msg)),
    }
    // with one partition the hand-written prover must reproduce the library prover byte for byte
    if log_parts == 0 {
        let mut prover = FriProver::<B, E, frih::Chan<E, H>, H>::new(opts.clone());
        let inst = frih::prove::<B, E, H>(&mut prover, evals.clone(), &opts, pos.len().max(1).min(domain - 1), Some(pos.clone()));
        if inst.proof != m.proof || inst.commitments != m.commitments {
            st.violation("hand-written-prover-differs-from-library-prover", desc("comparison", String::new()));
        }
        st.count("partitioned.one_partition_equals_library_prover");
    }
    st.evals += 1;
    st.count(&format!("partitioned.log_parts_{log_parts}"));
    st.distinct.insert(wfv::fnv(format!("part{tag}{pr:?}{log_parts}{pkind}{qkind}{i}").as_bytes()));
    st.sample("partitioned", || desc("sample", String::new()));
}

/// folding identity in the coefficient domain
fn drp<B: Fld, E: FieldElement<BaseField = B>, const N: usize>(rng: &mut Rng, st: &mut State) {
    let log_d = rng.range((N.ilog2() + 1) as usize, 8);
    let d = 1usize << log_d;
    // f has d coefficients at most (degree < d), evaluated over the coset of size d
    let deg = match rng.below(4) {
        0 => 1,
        1 => d,
        _ => rng.range(1, d),
    };
    let mut c = rand_vec::<B, E>(rng, deg);
    c.resize(d, E::ZERO);
    let offset = B::GENERATOR;
    let w = B::get_root_of_unity(log_d as u32);
    // evaluations by direct evaluation (reference), natural order
    let mut x = offset;
    let mut evals = Vec::with_capacity(d);
    for _ in 0..d {
        evals.push(p_eval::<E, E>(&c, E::from(x)));
        x *= w;
    }
    let alpha = rand_el::<B, E>(rng);
    let rows: Vec<[E; N]> = transpose_slice(&evals);
    // row i must be [f(x_i), f(x_{i + d/N}), ...]
    for (i, row) in rows.iter().enumerate() {
        for k in 0..N {
            if row[k] != evals[i + k * (d / N)] {
                st.violation("transpose_slice-layout", J::obj(vec![("N", J::i(N)), ("d", J::i(d))]));
                return;
            }
        }
    }
    let got = folding::apply_drp(&rows, offset, alpha);
    // reference: g(y) = sum_k alpha^k f_k(y) with f(x) = sum_k x^k f_k(x^N)
    let mut g = vec![E::ZERO; d / N];
    let mut apow = E::ONE;
    for k in 0..N {
        for m in 0..d / N {
            g[m] += apow * c[m * N + k];
        }
        apow *= alpha;
    }
    let y0 = offset.exp_vartime(B::pi(N as u128));
    let wy = w.exp_vartime(B::pi(N as u128));
    let mut y = y0;
    let mut ok = got.len() == d / N;
    for i in 0..(d / N).min(got.len()) {
        ok &= got[i] == p_eval::<E, E>(&g, E::from(y));
        y *= wy;
    }
    if !ok {
        st.violation(format!("apply_drp<{N}>:folding-identity"), J::obj(vec![("type", J::s(type_name::<B, E>())), ("domain", J::i(d)), ("degree_lt", J::i(deg))]));
    }
    st.evals += 1;
    st.count(&format!("drp.{}.N{N}", type_name::<B, E>()));
}

fn position_folding(rng: &mut Rng, st: &mut State) {
    let log_d = rng.range(3, 16);
    let d = 1usize << log_d;
    let fold = 1usize << rng.range(1, 4.min(log_d - 1));
    let (pos, _) = positions(rng, d, fold);
    let got = folding::fold_positions(&pos, d, fold);
    let mut want: Vec<usize> = Vec::new();
    for p in &pos {
        let q = p % (d / fold);
        if !want.contains(&q) {
            want.push(q);
        }
    }
    if got != want {
        st.violation("fold_positions", J::obj(vec![("domain", J::i(d)), ("folding", J::i(fold)), ("positions", J::s(format!("{:?}", &pos[..pos.len().min(12)])))]));
    }
    // single partition: identity mapping into the commitment tree
    if winter_fri::utils::map_positions_to_indexes(&got, d, fold, 1) != got {
        st.violation("map_positions_to_indexes:identity", J::i(d));
    }
    st.evals += 1;
    st.count("fold_positions.cases");
}

fn drive<B: Fld, E: FieldElement<BaseField = B>, H: ElementHasher<BaseField = B>>(run: &Run, tag: &str, n: u64) {
    run.par(tag, n, |i, rng, st| accept::<B, E, H>(rng, st, i, tag));
    run.par(&format!("{tag}/bound-not-2^k-1"), n / 2, |i, rng, st| accept_nonpow2::<B, E, H>(rng, st, i, tag));
    run.par(&format!("{tag}/partitioned"), n / 2, |i, rng, st| accept_partitioned::<B, E, H>(rng, st, i, tag));
}

fn main() {
    let run = Run::start("C15");
    type B62 = f62::BaseElement;
    type B64 = f64::BaseElement;
    type B128 = f128::BaseElement;
    let n = run.size(4_000, 300_000);
    drive::<B64, B64, Blake3_256<B64>>(&run, "f64/Blake3_256", n);
    drive::<B64, QuadExtension<B64>, Rp64_256>(&run, "f64^2/Rp64_256", n / 2);
    drive::<B64, CubeExtension<B64>, RpJive64_256>(&run, "f64^3/RpJive64_256", n / 2);
    drive::<B62, B62, Rp62_248>(&run, "f62/Rp62_248", n / 2);
    drive::<B62, QuadExtension<B62>, Sha3_256<B62>>(&run, "f62^2/Sha3_256", n);
    drive::<B62, CubeExtension<B62>, Blake3_192<B62>>(&run, "f62^3/Blake3_192", n);
    drive::<B128, B128, Blake3_192<B128>>(&run, "f128/Blake3_192", n);
    drive::<B128, QuadExtension<B128>, Sha3_256<B128>>(&run, "f128^2/Sha3_256", n / 2);
    run.par("drp", run.size(3_000, 300_000), |i, rng, st| {
        match i % 12 {
            0 => drp::<B64, B64, 2>(rng, st),
            1 => drp::<B64, B64, 4>(rng, st),
            2 => drp::<B64, B64, 8>(rng, st),
            3 => drp::<B64, B64, 16>(rng, st),
            4 => drp::<B64, QuadExtension<B64>, 4>(rng, st),
            5 => drp::<B64, CubeExtension<B64>, 2>(rng, st),
            6 => drp::<B62, B62, 4>(rng, st),
            7 => drp::<B62, QuadExtension<B62>, 8>(rng, st),
            8 => drp::<B62, CubeExtension<B62>, 16>(rng, st),
            9 => drp::<B128, B128, 2>(rng, st),
            10 => drp::<B128, QuadExtension<B128>, 4>(rng, st),
            _ => drp::<B128, B128, 16>(rng, st),
        }
        st.distinct.insert(wfv::fnv(format!("drp{i}").as_bytes()));
    });
    run.par("fold-positions", run.size(20_000, 1_000_000), |i, rng, st| {
        position_folding(rng, st);
        st.distinct.insert(wfv::fnv(format!("fp{i}").as_bytes()));
    });
    let mut require = vec![("degree_bound_0_or_1".to_string(), 20), ("fold_positions.cases".to_string(), 1000), ("nonpow2.accepted_or_checked".to_string(), 100), ("prover_reused_on_other_domain_size".to_string(), 100), ("partitioned.log_parts_1".to_string(), 50), ("partitioned.log_parts_2".to_string(), 20), ("partitioned.one_partition_equals_library_prover".to_string(), 50), ("nonpow2.layers_1".to_string(), 10), ("nonpow2.layers_2".to_string(), 10)];
    for k in ["poly.degree-0", "poly.degree-1", "poly.degree-bound-minus-1", "poly.degree-exactly-bound", "poly.random", "positions.one-position", "positions.255-or-max-positions-with-duplicates", "positions.colliding-after-folding", "positions.repeated-position", "folding.2", "folding.4", "folding.8", "folding.16", "accepted_or_checked.layers_0", "accepted_or_checked.layers_1", "accepted_or_checked.layers_3"] {
        require.push((k.to_string(), 10));
    }
    run.finish(Finish {
        rule: "instances: blowup 2..128 x folding 2/4/8/16 x remainder max degree 0..255 x polynomial sizes 2^0..2^10 (degree bounds 0 and 1 forced into every 9th case) with domain 8..2^13 and a well-formed schedule; polynomials of degree 0, 1, bound-1, exactly bound, zero, random; position lists: single, up to 255 with duplicates, colliding after folding, repeated, random; prover instance reused for a second proof (in half of the cases for a polynomial over a domain of another size); degree bounds m-1 with m a multiple of folding^layers strictly between n/2 and n (not of the form 2^k-1); verification directly and after FriProof byte round trip; a hand-written prover committing every layer in the partitioned layout (1, 2, 4, 8 partitions; with one partition it must reproduce the library prover byte for byte) whose honest proofs must be accepted; 8 field/extension/hasher configurations. Folding identity: apply_drp<2/4/8/16> on direct evaluations vs g(y)=sum_k alpha^k f_k(y) evaluated on the folded coset; fold_positions / map_positions_to_indexes / num_fri_layers vs closed forms. distinct = distinct generated instance".into(),
        assumptions: vec!["evaluations of the test polynomials are produced with the library FFT (C09); the folding identity uses direct evaluation instead".into(), "ill-formed schedules (a folded layer with fewer than 2 rows, or no remainder coefficient) are not generated".into()],
        exhaustive: false,
        require,
        extra: vec![],
    });
}
