//! C11 Hash functions: Blake3/SHA3 wrappers against the blake3/sha3 crates on canonical bytes;
//! the three Rescue instantiations against a textbook sponge in reference arithmetic built from
//! pinned constants; plus the input-separation classes the property names.
use winter_crypto::{
    hashers::{Blake3_192, Blake3_256, Rp62_248, Rp64_256, RpJive64_256, Sha3_256},
    Digest, ElementHasher, Hasher,
};
use winter_math::{
    fields::{f128, f62, f64, CubeExtension, QuadExtension},
    FieldElement, StarkField,
};
use wfv::{
    fields::{boundary_elements, res_of_raw, Fld},
    gen::*,
    hex,
    rescue_consts::*,
    rescue_ref::{self, Spec},
    Finish, Rng, Run, State, J,
};

type B62 = f62::BaseElement;
type B64 = f64::BaseElement;
type B128 = f128::BaseElement;

// BYTE HASHERS
// ================================================================================================

fn ref_blake(b: &[u8]) -> Vec<u8> {
    blake3::hash(b).as_bytes().to_vec()
}
fn ref_sha3(b: &[u8]) -> Vec<u8> {
    use sha3::Digest as _;
    sha3::Sha3_256::digest(b).to_vec()
}

fn content(rng: &mut Rng, len: usize) -> Vec<u8> {
    match rng.below(4) {
        0 => vec![0u8; len],
        1 => vec![0xffu8; len],
        _ => rng.bytes(len),
    }
}

/// canonical little-endian bytes of a list of elements (coefficient by coefficient)
fn canon_bytes<B: Fld, E: FieldElement<BaseField = B>>(els: &[E]) -> Vec<u8> {
    let mut out = Vec::new();
    for e in els {
        for c in res_vec::<B, E>(e) {
            out.extend_from_slice(&c.to_le_bytes()[..B::ELEMENT_BYTES]);
        }
    }
    out
}

/// same residues, other internal representation where the field has one
fn alt_rep<B: Fld>(e: B) -> B {
    if B::NAME == "f62" {
        let raw = e.raw();
        let p = B::FP.p;
        B::from_raw(if raw >= p { raw - p } else { raw + p })
    } else {
        e
    }
}

fn byte_hasher<B: Fld, H: ElementHasher<BaseField = B>>(run: &Run, hname: &str, n: usize, reference: fn(&[u8]) -> Vec<u8>, cases: u64) {
    let tag = format!("{hname}<{}>", B::NAME);
    let as_n = |d: H::Digest| d.as_bytes()[..n].to_vec();
    run.par(&tag, cases, |i, rng, st| {
        let bad = |st: &mut State, what: &str, detail: String| st.violation(format!("{tag}:{what}"), J::obj(vec![("hasher", J::s(&tag)), ("check", J::s(what)), ("detail", J::s(detail))]));
        // hash(bytes): every length 0..300 first, random lengths afterwards
        let len = if i <= 300 { i as usize } else { rng.usize(2000) };
        let data = content(rng, len);
        let d = H::hash(&data);
        if as_n(d) != reference(&data)[..n] || d.as_bytes()[n..].iter().any(|b| *b != 0) {
            bad(st, "hash", format!("len={len}"));
        }
        // merge = hash of the concatenation; merge_with_int = hash(seed || le64)
        let a = H::hash(&rng.bytes(5));
        let b = H::hash(&content(rng, 3));
        let mut cat = as_n(a);
        cat.extend_from_slice(&as_n(b));
        if as_n(H::merge(&[a, b])) != reference(&cat)[..n] {
            bad(st, "merge", hex(&cat));
        }
        let v = match rng.below(6) {
            0 => 0,
            1 => 1,
            2 => u64::MAX,
            3 => (B::FP.p as u64).wrapping_add(rng.below(3)).wrapping_sub(1),
            _ => rng.u64(),
        };
        let mut cat = as_n(a);
        cat.extend_from_slice(&v.to_le_bytes());
        if as_n(H::merge_with_int(a, v)) != reference(&cat)[..n] {
            bad(st, "merge_with_int", format!("value={v}"));
        }
        // hash_elements over base and extension typing of the same residues
        fn elems<B: Fld, H: ElementHasher<BaseField = B>, E: FieldElement<BaseField = B>>(rng: &mut Rng, n: usize, reference: fn(&[u8]) -> Vec<u8>) -> Option<String> {
            let len = rng.usize(40);
            let els: Vec<E> = rand_vec::<B, E>(rng, len);
            let d = H::hash_elements(&els);
            if d.as_bytes()[..n] != reference(&canon_bytes::<B, E>(&els))[..n] {
                return Some(format!("definition: {} elements of degree {}", len, E::EXTENSION_DEGREE));
            }
            // typing independence
            let flat: Vec<B> = E::slice_as_base_elements(&els).to_vec();
            if H::hash_elements(&flat) != d {
                return Some(format!("base-vs-extension typing: {} elements of degree {}", len, E::EXTENSION_DEGREE));
            }
            // representation independence
            let alt: Vec<B> = flat.iter().map(|e| alt_rep(*e)).collect();
            if H::hash_elements(&alt) != d {
                return Some("internal representation".to_string());
            }
            None
        }
        let r = match rng.below(3) {
            0 => elems::<B, H, B>(rng, n, reference),
            1 => elems::<B, H, QuadExtension<B>>(rng, n, reference),
            _ => {
                if CubeExtension::<B>::is_supported() {
                    elems::<B, H, CubeExtension<B>>(rng, n, reference)
                } else {
                    elems::<B, H, B>(rng, n, reference)
                }
            },
        };
        if let Some(d) = r {
            bad(st, "hash_elements", d);
        }
        st.case(wfv::fnv(format!("{tag}{i}").as_bytes()) ^ wfv::fnv(&data), true);
        st.count(&format!("{tag}.cases"));
        st.sample(&tag, || J::obj(vec![("hasher", J::s(&tag)), ("input_len", J::i(len)), ("digest", J::s(hex(&as_n(d))))]));
    });
}

// RESCUE
// ================================================================================================

fn dig_res<B: Fld>(e: &[B]) -> [u128; 4] {
    [e[0].res(), e[1].res(), e[2].res(), e[3].res()]
}

trait RescueLib: ElementHasher {
    type B: Fld;
    fn spec() -> Spec;
    fn digest_elements(d: &Self::Digest) -> Vec<Self::B>;
    fn permute(_state: &mut [Self::B]) -> bool {
        false
    }
    fn round(_state: &mut [Self::B], _r: usize) {}
}
impl RescueLib for Rp64_256 {
    type B = B64;
    fn spec() -> Spec {
        rescue_ref::rp64()
    }
    fn digest_elements(d: &Self::Digest) -> Vec<B64> {
        d.as_elements().to_vec()
    }
    fn permute(state: &mut [B64]) -> bool {
        let mut s: [B64; 12] = state.try_into().unwrap();
        Rp64_256::apply_permutation(&mut s);
        state.copy_from_slice(&s);
        true
    }
    fn round(state: &mut [B64], r: usize) {
        let mut s: [B64; 12] = state.try_into().unwrap();
        Rp64_256::apply_round(&mut s, r);
        state.copy_from_slice(&s);
    }
}
impl RescueLib for RpJive64_256 {
    type B = B64;
    fn spec() -> Spec {
        rescue_ref::jive()
    }
    fn digest_elements(d: &Self::Digest) -> Vec<B64> {
        d.as_elements().to_vec()
    }
    fn permute(state: &mut [B64]) -> bool {
        let mut s: [B64; 8] = state.try_into().unwrap();
        RpJive64_256::apply_permutation(&mut s);
        state.copy_from_slice(&s);
        true
    }
    fn round(state: &mut [B64], r: usize) {
        let mut s: [B64; 8] = state.try_into().unwrap();
        RpJive64_256::apply_round(&mut s, r);
        state.copy_from_slice(&s);
    }
}
impl RescueLib for Rp62_248 {
    type B = B62;
    fn spec() -> Spec {
        rescue_ref::rp62()
    }
    fn digest_elements(d: &Self::Digest) -> Vec<B62> {
        d.as_elements().to_vec()
    }
}

fn limb<B: Fld>(rng: &mut Rng, bnd: &[B], spec: &Spec) -> B {
    match rng.below(8) {
        0 | 1 => *rng.pick(bnd),
        2 => {
            // pre-image under the S-box of a boundary Montgomery image: the S-box output that
            // enters the MDS layer then has a boundary internal representation
            let target = rng.pick(bnd).res();
            B::from_res(spec.f.pow(target, spec.inv_alpha))
        },
        3 => {
            // pre-image under the inverse S-box
            let target = rng.pick(bnd).res();
            B::from_res(spec.f.pow(target, spec.alpha))
        },
        4 => B::from_res([0u128, 1, 0xFFFF_FFFF, 0x1_0000_0000, spec.f.p - 1][rng.usize(5)]),
        _ => B::from_res(rng.u128() % spec.f.p),
    }
}

fn rescue<H: RescueLib<BaseField = <H as RescueLib>::B>>(run: &Run, cases: u64)
where
    H::Digest: Copy,
{
    let spec = H::spec();
    let name = spec.name;
    let bnd = boundary_elements::<H::B>();
    // constants and exponents
    run.seq(&format!("{name}-consts"), 1, |_, _, st| {
        if !spec.exponents_consistent() {
            st.violation(format!("{name}:reference-exponents"), J::Null);
        }
        st.evals += 1;
        st.count(&format!("{name}.constants"));
    });
    run.par(name, cases, |i, rng, st| {
        let bad = |st: &mut State, what: &str, detail: String| st.violation(format!("{name}:{what}"), J::obj(vec![("hasher", J::s(name)), ("check", J::s(what)), ("detail", J::s(detail))]));
        let range_ok = |els: &[H::B]| els.iter().all(|e| e.raw() < <H::B as Fld>::RAW_LIMIT);
        // permutation and single rounds on boundary-biased states (exported for the f64 variants)
        let mut state: Vec<H::B> = (0..spec.width).map(|_| limb::<H::B>(rng, &bnd, &spec)).collect();
        if i % 7 == 0 {
            // one boundary value in one position, the rest zero / equal
            let fill = if rng.bool() { <H::B>::ZERO } else { *rng.pick(&bnd) };
            for s in state.iter_mut() {
                *s = fill;
            }
            let pos = rng.usize(spec.width);
            state[pos] = limb::<H::B>(rng, &bnd, &spec);
        }
        let before: Vec<u128> = state.iter().map(|e| e.res()).collect();
        let mut lib = state.clone();
        if H::permute(&mut lib) {
            let mut r = before.clone();
            spec.permute(&mut r);
            if lib.iter().map(|e| e.res()).collect::<Vec<_>>() != r {
                bad(st, "permutation", format!("state={before:?}"));
            }
            if !range_ok(&lib) {
                bad(st, "permutation:limb-range", format!("state={before:?}"));
            }
            let round = rng.usize(7);
            let mut lib = state.clone();
            H::round(&mut lib, round);
            let mut r = before.clone();
            spec.round(&mut r, round);
            if lib.iter().map(|e| e.res()).collect::<Vec<_>>() != r {
                bad(st, "round", format!("round={round} state={before:?}"));
            }
            st.count(&format!("{name}.permutations"));
        }
        // hash(bytes): every length up to 4 rate blocks first
        let max_len = 7 * spec.rate_width * 4 + 9;
        let len = if (i as usize) <= max_len { i as usize } else { rng.usize(3 * max_len) };
        let data = content(rng, len);
        let d = H::hash(&data);
        if dig_res(&H::digest_elements(&d)) != spec.hash(&data) {
            bad(st, "hash", format!("len={len} data={}", hex(&data[..len.min(40)])));
        }
        if !range_ok(&H::digest_elements(&d)) {
            bad(st, "hash:digest-limb-range", format!("len={len}"));
        }
        // hash_elements: lengths 0..3*rate+1 first; base / quadratic / cubic typing
        let nel = if (i as usize) <= 3 * spec.rate_width + 1 { i as usize } else { rng.usize(5 * spec.rate_width) };
        let els: Vec<H::B> = (0..nel).map(|_| limb::<H::B>(rng, &bnd, &spec)).collect();
        let want = spec.hash_elements(&els.iter().map(|e| e.res()).collect::<Vec<_>>());
        let de = H::hash_elements(&els);
        if dig_res(&H::digest_elements(&de)) != want {
            bad(st, "hash_elements", format!("n={nel}"));
        }
        if nel % 2 == 0 {
            let q = QuadExtension::<H::B>::slice_from_base_elements(&els);
            if H::hash_elements(q) != de {
                bad(st, "hash_elements:quad-typing", format!("n={nel}"));
            }
        }
        if nel % 3 == 0 {
            let c = CubeExtension::<H::B>::slice_from_base_elements(&els);
            if H::hash_elements(c) != de {
                bad(st, "hash_elements:cube-typing", format!("n={nel}"));
            }
        }
        let alt: Vec<H::B> = els.iter().map(|e| alt_rep(*e)).collect();
        let da = H::hash_elements(&alt);
        if da != de || da.as_bytes() != de.as_bytes() {
            bad(st, "hash_elements:internal-representation", format!("n={nel}"));
        }
        // merge and merge_with_int
        let a = H::hash_elements(&[limb::<H::B>(rng, &bnd, &spec)]);
        let b = de;
        let (ar, br) = (dig_res(&H::digest_elements(&a)), dig_res(&H::digest_elements(&b)));
        let mg = H::merge(&[a, b]);
        if dig_res(&H::digest_elements(&mg)) != spec.merge(ar, br) {
            bad(st, "merge", format!("a={ar:?} b={br:?}"));
        }
        if spec.mode == rescue_ref::Mode::CountInCapacity {
            let mut cat = H::digest_elements(&a);
            cat.extend_from_slice(&H::digest_elements(&b));
            if H::hash_elements(&cat) != mg {
                bad(st, "merge=hash-of-concatenation", format!("a={ar:?} b={br:?}"));
            }
        }
        let p = spec.f.p as u64;
        let ints: [u64; 12] = [0, 1, p - 1, p, p + 1, 2u64.wrapping_mul(p).wrapping_sub(1), 2u64.wrapping_mul(p), u64::MAX, u64::MAX - 1, rng.u64(), rng.u64() % p, p.wrapping_add(rng.u64() % 1000)];
        let mut seen: Vec<(u64, [u128; 4])> = Vec::new();
        for v in ints {
            let d = H::merge_with_int(a, v);
            let r = dig_res(&H::digest_elements(&d));
            if r != spec.merge_with_int(ar, v) {
                bad(st, "merge_with_int", format!("seed={ar:?} value={v}"));
            }
            if !range_ok(&H::digest_elements(&d)) {
                bad(st, "merge_with_int:digest-limb-range", format!("value={v}"));
            }
            for (v2, r2) in &seen {
                if *v2 != v && *r2 == r {
                    bad(st, "merge_with_int:injective", format!("seed={ar:?} values {v} and {v2} give the same digest"));
                }
            }
            seen.push((v, r));
        }
        st.case(wfv::fnv(format!("{name}{i}").as_bytes()) ^ wfv::fnv(&data), true);
        st.count(&format!("{name}.cases"));
        st.sample(name, || J::obj(vec![("hasher", J::s(name)), ("bytes_len", J::i(len)), ("elements", J::i(nel)), ("state", J::s(format!("{before:?}")))]));
    });
}

/// length / trailing-zero separation for all six hashers
fn separation<H: Hasher>(run: &Run, hname: &str, cases: u64) {
    run.par(&format!("{hname}-separation"), cases, |i, rng, st| {
        let len = (i as usize) % 64;
        let base = if i % 3 == 0 { vec![0u8; len] } else { content(rng, len) };
        // s, s||0, s||00, ..., and the empty string: pairwise distinct digests
        let mut v: Vec<Vec<u8>> = vec![vec![], base.clone()];
        for k in 1..=9 {
            let mut t = base.clone();
            t.extend(std::iter::repeat(0u8).take(k));
            v.push(t);
        }
        let mut one = base.clone();
        one.push(1);
        v.push(one);
        v.sort();
        v.dedup();
        let ds: Vec<[u8; 32]> = v.iter().map(|x| H::hash(x).as_bytes()).collect();
        for a in 0..ds.len() {
            for b in a + 1..ds.len() {
                if ds[a] == ds[b] {
                    st.violation(format!("{hname}:separation"), J::obj(vec![("a", J::s(hex(&v[a]))), ("b", J::s(hex(&v[b])))]));
                }
            }
        }
        // determinism
        if H::hash(&base).as_bytes() != H::hash(&base.clone()).as_bytes() {
            st.violation(format!("{hname}:determinism"), J::s(hex(&base)));
        }
        st.case(wfv::fnv(format!("{hname}s{i}").as_bytes()), true);
        st.count(&format!("{hname}.separation"));
    });
}

fn pinned_constants(run: &Run) {
    run.seq("pinned-constants", 1, |_, _, st| {
        let eq = |a: &[[B64; 12]], b: &[[u64; 12]]| a.iter().zip(b).all(|(x, y)| x.iter().zip(y).all(|(e, v)| e.as_int() == *v));
        let eq8 = |a: &[[B64; 8]], b: &[[u64; 8]]| a.iter().zip(b).all(|(x, y)| x.iter().zip(y).all(|(e, v)| e.as_int() == *v));
        if !eq(&Rp64_256::MDS, &RP64_MDS) || !eq(&Rp64_256::ARK1, &RP64_ARK1) || !eq(&Rp64_256::ARK2, &RP64_ARK2) {
            st.violation("Rp64_256:published-constants-changed", J::Null);
        }
        if !eq8(&RpJive64_256::MDS, &JIVE_MDS) || !eq8(&RpJive64_256::ARK1, &JIVE_ARK1) || !eq8(&RpJive64_256::ARK2, &JIVE_ARK2) {
            st.violation("RpJive64_256:published-constants-changed", J::Null);
        }
        // INV_MDS * MDS = I
        let f = wfv::refmath::F64;
        for i in 0..12 {
            for j in 0..12 {
                let mut acc = 0u128;
                for k in 0..12 {
                    acc = f.add(acc, f.mul(Rp64_256::INV_MDS[i][k].as_int() as u128, RP64_MDS[k][j] as u128));
                }
                if acc != (i == j) as u128 {
                    st.violation("Rp64_256:INV_MDS", J::Null);
                }
            }
        }
        for i in 0..8 {
            for j in 0..8 {
                let mut acc = 0u128;
                for k in 0..8 {
                    acc = f.add(acc, f.mul(RpJive64_256::INV_MDS[i][k].as_int() as u128, JIVE_MDS[k][j] as u128));
                }
                if acc != (i == j) as u128 {
                    st.violation("RpJive64_256:INV_MDS", J::Null);
                }
            }
        }
        st.evals += 4;
        st.count("pinned_constants.checked");
    });
}

fn main() {
    let run = Run::start("C11");
    let nb = run.size(4_000, 300_000);
    byte_hasher::<B64, Blake3_256<B64>>(&run, "Blake3_256", 32, ref_blake, nb);
    byte_hasher::<B62, Blake3_256<B62>>(&run, "Blake3_256", 32, ref_blake, nb);
    byte_hasher::<B128, Blake3_256<B128>>(&run, "Blake3_256", 32, ref_blake, nb);
    byte_hasher::<B64, Blake3_192<B64>>(&run, "Blake3_192", 24, ref_blake, nb);
    byte_hasher::<B62, Blake3_192<B62>>(&run, "Blake3_192", 24, ref_blake, nb);
    byte_hasher::<B128, Blake3_192<B128>>(&run, "Blake3_192", 24, ref_blake, nb);
    byte_hasher::<B64, Sha3_256<B64>>(&run, "Sha3_256", 32, ref_sha3, nb);
    byte_hasher::<B62, Sha3_256<B62>>(&run, "Sha3_256", 32, ref_sha3, nb);
    byte_hasher::<B128, Sha3_256<B128>>(&run, "Sha3_256", 32, ref_sha3, nb);
    pinned_constants(&run);
    let nr = run.size(12_000, 1_000_000);
    rescue::<Rp64_256>(&run, nr);
    rescue::<RpJive64_256>(&run, nr);
    rescue::<Rp62_248>(&run, nr);
    let ns = run.size(2_000, 100_000);
    separation::<Blake3_256<B64>>(&run, "Blake3_256", ns);
    separation::<Blake3_192<B64>>(&run, "Blake3_192", ns);
    separation::<Sha3_256<B64>>(&run, "Sha3_256", ns);
    separation::<Rp64_256>(&run, "Rp64_256", ns);
    separation::<RpJive64_256>(&run, "RpJive64_256", ns);
    separation::<Rp62_248>(&run, "Rp62_248", ns);
    let mut require = vec![("pinned_constants.checked".to_string(), 1)];
    for h in ["Blake3_256", "Blake3_192", "Sha3_256"] {
        for f in ["f64", "f62", "f128"] {
            require.push((format!("{h}<{f}>.cases"), 301));
        }
    }
    for h in ["Rp64_256", "RpJive64_256", "Rp62_248"] {
        require.push((format!("{h}.cases"), 300));
        require.push((format!("{h}.constants"), 1));
    }
    require.push(("Rp64_256.permutations".into(), 300));
    require.push(("RpJive64_256.permutations".into(), 300));
    for h in ["Blake3_256", "Blake3_192", "Sha3_256", "Rp64_256", "RpJive64_256", "Rp62_248"] {
        require.push((format!("{h}.separation"), 64));
    }
    run.finish(Finish {
        rule: "byte hashers x 3 fields: hash for every length 0..300 then random lengths (zero/0xff/random content), merge = H(a||b), merge_with_int = H(seed||le64) for integers below/at/above the modulus, hash_elements over base/quadratic/cubic typing = H(canonical LE bytes), typing and internal-representation independence; Rescue x 3: permutation and single rounds on states with boundary limbs (0,1,2^32-1,2^32,p-1, boundary internal images, S-box pre-images of boundary images) in every position and random states vs textbook reference, hash for every length 0..4 rate blocks, hash_elements for every length 0..3*rate+1 (base/quad/cube typing, alternative internal representation), merge (sponge or Jive compression), merge_with_int on {0,1,p-1,p,p+1,2p-1,2p,2^64-1,...} incl. pairwise injectivity, digest limb range; all six: s, s||0^k (k=1..9), s||1 and the empty string hash pairwise differently. distinct = distinct (hasher, case index, input)".into(),
        assumptions: vec![
            "blake3 / sha3 crates are the reference for the byte hashers".into(),
            "Rescue reference: textbook permutation with the constants pinned in harness/src/rescue_consts.rs (copied at the pinned commit) and the absorption/padding/capacity conventions documented in each module (element count in one capacity cell; Jive: domain flag, 1||0* overwrite padding, Jive compression for merges)".into(),
            "overflow checks are on in this build: the frequency-domain MDS fast path's no-overflow argument is checked by the compiler-inserted checks on every state".into(),
        ],
        exhaustive: false,
        require,
        extra: vec![],
    });
}
