//! C06 Untrusted input: mutants of accepted proofs (and semi-random byte strings) are parsed with
//! Proof::from_bytes and, when they parse, verified against right and wrong public inputs under
//! all three acceptance policies. Monitors: panic hook (site + message signature), counting
//! global allocator (largest single request, peak), process isolation (each worker is a child
//! process that announces every case before running it, so an abort is attributed to its input),
//! logical watchdog in the parent.
use std::{
    alloc::{GlobalAlloc, Layout, System},
    io::{BufRead, BufReader, Write},
    process::{Command, Stdio},
    sync::atomic::{AtomicUsize, Ordering::Relaxed},
};

use winter_air::proof::Proof;
use winter_verifier::AcceptableOptions;
use wfv::{catch, seeds::*, stark, Finish, Rng, Run, State, J};

// COUNTING ALLOCATOR
// ================================================================================================
struct Counting;
static CUR: AtomicUsize = AtomicUsize::new(0);
static PEAK: AtomicUsize = AtomicUsize::new(0);
static MAXREQ: AtomicUsize = AtomicUsize::new(0);
static ANNOUNCE: AtomicUsize = AtomicUsize::new(usize::MAX);
static MAX_PEAK: AtomicUsize = AtomicUsize::new(0);
static MAX_SINGLE: AtomicUsize = AtomicUsize::new(0);

fn raw_stdout(msg: &[u8]) {
    use std::os::unix::io::FromRawFd;
    let mut f = std::mem::ManuallyDrop::new(unsafe { std::fs::File::from_raw_fd(1) });
    let _ = f.write_all(msg);
}

unsafe impl GlobalAlloc for Counting {
    unsafe fn alloc(&self, l: Layout) -> *mut u8 {
        let sz = l.size();
        if sz > MAXREQ.load(Relaxed) {
            MAXREQ.store(sz, Relaxed);
        }
        if sz >= ANNOUNCE.load(Relaxed) {
            // announce the request before forwarding it, so that the event survives an abort
            let mut buf = [0u8; 40];
            let mut n = sz;
            let mut i = buf.len() - 1;
            buf[i] = b'\n';
            loop {
                i -= 1;
                buf[i] = b'0' + (n % 10) as u8;
                n /= 10;
                if n == 0 {
                    break;
                }
            }
            i -= 2;
            buf[i] = b'A';
            buf[i + 1] = b' ';
            raw_stdout(&buf[i..]);
        }
        let p = System.alloc(l);
        if !p.is_null() {
            let c = CUR.fetch_add(sz, Relaxed) + sz;
            if c > PEAK.load(Relaxed) {
                PEAK.store(c, Relaxed);
            }
        }
        p
    }
    unsafe fn dealloc(&self, p: *mut u8, l: Layout) {
        CUR.fetch_sub(l.size(), Relaxed);
        System.dealloc(p, l)
    }
}
#[global_allocator]
static GLOBAL: Counting = Counting;

// CHILD
// ================================================================================================
fn esc(s: &str) -> String {
    s.replace(['\n', '\t'], " ")
}

fn child(args: &[String]) {
    // --child <index> <stride> <nseeds> <seed> <quick:0|1> <resume_seed> <resume_mutant>
    let p = |k: usize| args[k].parse::<u64>().unwrap();
    let (index, stride, nseeds, vseed, quick, rs, rm) = (p(0), p(1), p(2), p(3), p(4) == 1, p(5), p(6));
    wfv::report::install_panic_hook();
    let out = std::io::stdout();
    let mut seed_idx = index;
    while seed_idx < nseeds {
        if seed_idx < rs {
            seed_idx += stride;
            continue;
        }
        let mut rng = Rng::derive(vseed, "C06/seed", seed_idx);
        let Some(seed) = make_seed(seed_idx, &mut rng) else {
            println!("C skipped.seed_not_accepted(C01) 1");
            seed_idx += stride;
            continue;
        };
        let mutants = all_mutants(&seed, &mut rng, quick);
        println!("S {seed_idx} {:?} {:?} {} {}", seed.inst.fd, seed.inst.hs, seed.bytes.len(), mutants.len());
        let (fd, hs) = (seed.inst.fd, seed.inst.hs);
        // wrong public inputs: one assertion value perturbed
        let mut wrong = seed.inst.values.clone();
        wrong[0][0] = wfv::refmath::Fp { p: stark::modulus(fd) }.add(wrong[0][0], 1);
        let policies = [AcceptableOptions::MinConjecturedSecurity(0), AcceptableOptions::MinProvenSecurity(0), AcceptableOptions::OptionSet(vec![seed.inst.options.clone()]), AcceptableOptions::MinConjecturedSecurity(128)];
        let mut counts: std::collections::BTreeMap<String, u64> = Default::default();
        for (k, m) in mutants.iter().enumerate() {
            if seed_idx == rs && (k as u64) < rm {
                continue;
            }
            {
                let mut o = out.lock();
                let _ = writeln!(o, "B {seed_idx} {k} {}", esc(&m.class));
                let _ = o.flush();
            }
            let len = m.bytes.len();
            let base = CUR.load(Relaxed);
            PEAK.store(base, Relaxed);
            MAXREQ.store(0, Relaxed);
            let limit_single = (16usize << 20).max(64 * len);
            ANNOUNCE.store(limit_single, Relaxed);
            let class = m.class.split(':').next().unwrap_or("").to_string();
            let mut viol = |sig: String, what: &str, detail: String| {
                let j = J::obj(vec![("field", J::s(format!("{fd:?}"))), ("hasher", J::s(format!("{hs:?}"))), ("options", J::s(format!("{:?}", seed.inst.options))), ("seed_index", J::i(seed_idx)), ("mutant_index", J::i(k)), ("mutation", J::s(&m.class)), ("input_len", J::i(len)), ("first_difference_at", J::i(seed.bytes.iter().zip(&m.bytes).position(|(a, b)| a != b).unwrap_or(seed.bytes.len().min(len)))), ("what", J::s(what)), ("detail", J::s(detail))]);
                println!("V {}\t{}", esc(&sig), j.to_string());
            };
            match catch(|| Proof::from_bytes(&m.bytes)) {
                Err(p) => {
                    viol(format!("panic:parse:{}", p.sig), "Proof::from_bytes panicked", p.msg);
                    *counts.entry("outcome.parse_panic".into()).or_default() += 1;
                },
                Ok(Err(_)) => *counts.entry("outcome.parse_error".into()).or_default() += 1,
                Ok(Ok(proof)) => {
                    *counts.entry("outcome.parsed".into()).or_default() += 1;
                    for (pi, pol) in policies.iter().enumerate() {
                        if pi > 0 && k % 8 != 0 {
                            continue;
                        }
                        for (vals, which) in [(&seed.inst.values, "right"), (&wrong, "wrong")] {
                            if (pi > 0 || k % 4 != 1) && which == "wrong" {
                                continue;
                            }
                            match stark::verify_proof(fd, hs, &seed.inst.shape, vals, proof.clone(), pol, false) {
                                Ok(Ok(())) => *counts.entry(format!("outcome.verify_ok.{which}_inputs")).or_default() += 1,
                                Ok(Err(_)) => *counts.entry("outcome.verify_error".into()).or_default() += 1,
                                Err(p) => {
                                    viol(format!("panic:verify:{}", p.sig), "verify panicked", p.msg);
                                    *counts.entry("outcome.verify_panic".into()).or_default() += 1;
                                },
                            }
                        }
                    }
                },
            }
            ANNOUNCE.store(usize::MAX, Relaxed);
            let peak = PEAK.load(Relaxed).saturating_sub(base);
            let maxreq = MAXREQ.load(Relaxed);
            if maxreq > limit_single {
                viol(format!("oversized-alloc:{class}"), "single allocation out of proportion to the input", format!("{maxreq} bytes requested for an input of {len} bytes"));
            }
            if peak > 256 * len + (64 << 20) {
                viol(format!("peak-memory:{class}"), "peak memory out of proportion to the input", format!("{peak} bytes live for an input of {len} bytes"));
            }
            *counts.entry(format!("mutants.{class}")).or_default() += 1;
            println!("E {} {}", peak, maxreq);
        }
        for (k, v) in &counts {
            println!("C {k} {v}");
        }
        println!("C seeds.{fd:?}.{hs:?} 1");
        println!("C seeds.extension.{:?} 1", seed.inst.options.field_extension());
        println!("X {}", J::obj(vec![("field", J::s(format!("{fd:?}"))), ("hasher", J::s(format!("{hs:?}"))), ("options", J::s(format!("{:?}", seed.inst.options))), ("shape", seed.inst.shape.json()), ("proof_bytes", J::i(seed.bytes.len())), ("mutants", J::i(mutants.len()))]).to_string());
        seed_idx += stride;
    }
    println!("Q");
}

// PARENT
// ================================================================================================
fn main() {
    let args: Vec<String> = std::env::args().collect();
    if args.get(1).map(|s| s.as_str()) == Some("--child") {
        child(&args[2..]);
        return;
    }
    let run = Run::start("C06");
    let quick = run.quick();
    let nseeds = run.size(24, 1_200);
    let workers = Run::threads().min(nseeds as usize).max(1) as u64;
    let exe = std::env::current_exe().unwrap();
    // termination watchdog, decided on CPU time (not wall clock): a case whose child has burnt more
    // than CASE_CPU_LIMIT_S seconds of CPU since the case was announced is killed and reported as
    // non-terminating (the slowest cases take well under a second)
    const CASE_CPU_LIMIT_S: u64 = 120;
    let pids: Vec<std::sync::atomic::AtomicU64> = (0..workers).map(|_| std::sync::atomic::AtomicU64::new(0)).collect();
    let seqs: Vec<std::sync::atomic::AtomicU64> = (0..workers).map(|_| std::sync::atomic::AtomicU64::new(0)).collect();
    let killed: Vec<std::sync::atomic::AtomicU64> = (0..workers).map(|_| std::sync::atomic::AtomicU64::new(0)).collect();
    let done = std::sync::atomic::AtomicU64::new(0);
    let cpu_ticks = |pid: u64| -> Option<u64> {
        let s = std::fs::read_to_string(format!("/proc/{pid}/stat")).ok()?;
        let rest = s.rsplit_once(')')?.1;
        let f: Vec<&str> = rest.split_whitespace().collect();
        Some(f.get(11)?.parse::<u64>().ok()? + f.get(12)?.parse::<u64>().ok()?)
    };
    std::thread::scope(|sc| {
        let (pids, seqs, killed, done) = (&pids, &seqs, &killed, &done);
        sc.spawn(move || {
            let mut last: Vec<(u64, u64, u64)> = vec![(0, 0, 0); pids.len()]; // (pid, seq, cpu at last change)
            while done.load(Relaxed) < pids.len() as u64 {
                std::thread::sleep(std::time::Duration::from_millis(1500));
                for w in 0..pids.len() {
                    let pid = pids[w].load(Relaxed);
                    if pid == 0 {
                        continue;
                    }
                    let seq = seqs[w].load(Relaxed);
                    let Some(cpu) = cpu_ticks(pid) else { continue };
                    if last[w].0 != pid || last[w].1 != seq {
                        last[w] = (pid, seq, cpu);
                    } else if cpu.saturating_sub(last[w].2) > CASE_CPU_LIMIT_S * 100 {
                        killed[w].store(pid, Relaxed);
                        let _ = Command::new("kill").args(["-9", &pid.to_string()]).status();
                    }
                }
            }
        });
        for w in 0..workers {
            let run = &run;
            let exe = exe.clone();
            sc.spawn(move || {
                let mut st = State::new();
                let (mut rs, mut rm) = (0u64, 0u64);
                let mut restarts = 0;
                loop {
                    let mut ch = Command::new(&exe)
                        .args(["--child", &w.to_string(), &workers.to_string(), &nseeds.to_string(), &run.seed.to_string(), if quick { "1" } else { "0" }, &rs.to_string(), &rm.to_string()])
                        .env("VERIF_DIR", &run.verif_dir)
                        .stdout(Stdio::piped())
                        .stderr(Stdio::piped())
                        .spawn()
                        .expect("spawn child");
                    pids[w as usize].store(ch.id() as u64, Relaxed);
                    let rd = BufReader::new(ch.stdout.take().unwrap());
                    let mut open: Option<(u64, u64, String)> = None;
                    let mut last_alloc: Option<String> = None;
                    let mut finished = false;
                    for line in rd.lines() {
                        let Ok(line) = line else { break };
                        seqs[w as usize].fetch_add(1, Relaxed);
                        let (tag, rest) = line.split_at(1.min(line.len()));
                        let rest = rest.trim_start();
                        match tag {
                            "B" => {
                                let mut it = rest.splitn(3, ' ');
                                let s: u64 = it.next().unwrap_or("0").parse().unwrap_or(0);
                                let k: u64 = it.next().unwrap_or("0").parse().unwrap_or(0);
                                open = Some((s, k, it.next().unwrap_or("").to_string()));
                                last_alloc = None;
                                st.evals += 1;
                            },
                            "E" => {
                                let mut it = rest.split(' ');
                                let peak: u64 = it.next().unwrap_or("0").parse().unwrap_or(0);
                                let mx: u64 = it.next().unwrap_or("0").parse().unwrap_or(0);
                                MAX_PEAK.fetch_max(peak as usize, Relaxed);
                                MAX_SINGLE.fetch_max(mx as usize, Relaxed);
                                if let Some((s, k, _)) = &open {
                                    st.distinct.insert(s.wrapping_mul(0x9E3779B97F4A7C15) ^ k);
                                }
                                open = None;
                            },
                            "A" => last_alloc = Some(rest.to_string()),
                            "V" => {
                                if let Some((sig, detail)) = rest.split_once('\t') {
                                    st.violation(sig.to_string(), J::Raw(detail.to_string()));
                                }
                            },
                            "C" => {
                                let mut it = rest.rsplitn(2, ' ');
                                let n: u64 = it.next().unwrap_or("0").parse().unwrap_or(0);
                                st.add(it.next().unwrap_or("?"), n);
                            },
                            "X" => {
                                let r = rest.to_string();
                                st.sample("seed", || J::Raw(r));
                            },
                            "Q" => finished = true,
                            _ => {},
                        }
                    }
                    let status = ch.wait().ok();
                    pids[w as usize].store(0, Relaxed);
                    if finished {
                        break;
                    }
                    if killed[w as usize].swap(0, Relaxed) != 0 {
                        if let Some((s, k, class)) = open.take() {
                            let cls = class.split(':').next().unwrap_or("").to_string();
                            st.violation(
                                format!("did-not-terminate:{cls}"),
                                J::obj(vec![("seed_index", J::i(s)), ("mutant_index", J::i(k)), ("mutation", J::s(class)), ("what", J::s(format!("the child spent more than {CASE_CPU_LIMIT_S} s of CPU time inside this case and was killed")))]),
                            );
                            rs = s;
                            rm = k + 1;
                            restarts += 1;
                            continue;
                        }
                    }
                    // the child died: attribute the death to the announced case
                    let mut err = String::new();
                    if let Some(mut e) = ch.stderr.take() {
                        use std::io::Read;
                        let _ = e.read_to_string(&mut err);
                    }
                    let tail: String = err.lines().rev().take(3).collect::<Vec<_>>().join(" | ");
                    match open.take() {
                        Some((s, k, class)) => {
                            let cls = class.split(':').next().unwrap_or("").to_string();
                            let kind = if tail.contains("memory allocation of") { "allocation-failure" } else if tail.contains("stack overflow") { "stack-overflow" } else { "abort" };
                            st.violation(
                                format!("process-died:{kind}:{cls}"),
                                J::obj(vec![("seed_index", J::i(s)), ("mutant_index", J::i(k)), ("mutation", J::s(class)), ("exit_status", J::s(format!("{status:?}"))), ("last_large_allocation_request", J::s(last_alloc.clone().unwrap_or_default())), ("stderr_tail", J::s(tail))]),
                            );
                            rs = s;
                            rm = k + 1;
                        },
                        None => {
                            st.inconclusive.push(format!("worker {w} died outside a case: {status:?} {tail}"));
                            break;
                        },
                    }
                    restarts += 1;
                    if restarts > 200 {
                        st.inconclusive.push(format!("worker {w}: more than 200 restarts"));
                        break;
                    }
                }
                st.add("workers.restarts_after_child_death", restarts);
                done.fetch_add(1, Relaxed);
                run.merge(st);
            });
        }
    });
    let mut require = vec![("outcome.parse_error".to_string(), 10_000), ("outcome.parsed".to_string(), 1_000), ("outcome.verify_error".to_string(), 1_000)];
    for c in ["bitflip", "byte", "scalar", "length", "truncated", "valid-prefix+random", "semantic", "blob-grow1", "trailing-garbage"] {
        require.push((format!("mutants.{c}"), 20));
    }
    run.finish(Finish {
        rule: "seed proofs as in C03 (12 field x hasher combinations, 3 extension degrees, single/multi segment, Lagrange kernel, with/without trace metadata); inputs: every single-bit flip and 8 byte values at every offset (quick: all for the first 160 bytes, one per offset beyond), every scalar/length field x {0,1,2,..,max-1,max,+-1,random}, blobs grown/shrunk/emptied with lengths fixed up (by bytes, zero bytes, digests, field elements, whole table rows), rows added to / removed from every opened table at once with and without num_unique_queries adjusted, out-of-domain frames re-encoded with other frame sizes, Lagrange frame injected/resized, FRI layer and query record surgery (also together with the layer's commitment), sampled pairs of such edits, single-query seeds with the FRI remainder shortened/extended + its commitment recomputed + the nonce scanned, Merkle node-vector edits, truncation at every offset, trailing garbage, valid prefix + random bytes, structurally valid proofs with inconsistent components built through the public fields (unique-query counts 0/1/2/254/255, nonces, gkr_proof variants, missing/extra/swapped query sets, empty OOD frame/commitments, dummy FRI proof, foreign context). Each input: Proof::from_bytes; if it parses, verify against the right public inputs under MinConjecturedSecurity(0), MinProvenSecurity(0), OptionSet([options]), MinConjecturedSecurity(128) and against perturbed public inputs. Monitors: panic hook, overflow checks, termination watchdog on the child's CPU time (120 s per case), counting allocator (single request <= max(16 MiB, 64*len), peak <= 256*len + 64 MiB), child-process isolation. distinct = distinct (seed, mutant)".into(),
        assumptions: vec![
            "each worker is a child process that announces a case before running it; a death is attributed to the announced case and the worker is restarted after it".into(),
            "panic signatures: repo-relative file (or first repo frame + function for panics inside core/alloc) + message with digits normalised".into(),
            "build: release with overflow checks (stage rel) and the repository's plain release semantics (stage relnoc)".into(),
        ],
        exhaustive: false,
        require,
        extra: vec![("max_peak_bytes_in_one_case".into(), J::i(MAX_PEAK.load(Relaxed))), ("max_single_allocation_request_bytes".into(), J::i(MAX_SINGLE.load(Relaxed)))],
    });
}
