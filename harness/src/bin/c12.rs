//! C12 Serialization round trip: for generated values of every serializable type, decoding the
//! encoding returns an equal value and consumes exactly the written bytes, through SliceReader,
//! std::io::Cursor and ReadAdapter over a chunking source (trailing garbage appended so that
//! over-consumption is visible).
use std::{
    collections::{BTreeMap, BTreeSet},
    fmt::Debug,
    io::Cursor,
};

use winter_air::{
    proof::{Commitments, Context, OodFrame, Queries, TraceOodFrame},
    FieldExtension, LagrangeKernelEvaluationFrame, ProofOptions, TraceInfo,
};
use winter_crypto::{
    hashers::{Blake3_192, Blake3_256, Rp62_248, Rp64_256, RpJive64_256, Sha3_256},
    ElementHasher, Hasher, MerkleTree,
};
use winter_fri::{FriOptions, FriProof, FriProver};
use winter_math::{
    fields::{f128, f62, f64, CubeExtension, QuadExtension},
    FieldElement,
};
use winter_utils::{ByteReader, Deserializable, DeserializationError, ReadAdapter, Serializable, SliceReader};
use wfv::{
    catch,
    chunks::{ChunkedSource, Schedule},
    fields::{boundary_elements, Fld},
    frih,
    gen::*,
    hex, Finish, Rng, Run, State, J,
};

/// decodes one value straight from the reader under test (no wrapper in between: a reader's own overrides of the
/// provided trait methods must be the ones that run) and measures what it consumed by draining the rest
fn decode_and_measure<T: Deserializable, R: ByteReader>(rd: &mut R, total: usize) -> Result<(T, usize, bool), DeserializationError> {
    let x = T::read_from(rd)?;
    let more = rd.has_more_bytes();
    let mut rest = 0usize;
    while rd.read_u8().is_ok() {
        rest += 1;
        if rest > total + 8 {
            break;
        }
    }
    Ok((x, total.wrapping_sub(rest), more))
}

fn rt_with<T: Serializable + Deserializable>(st: &mut State, rng: &mut Rng, ty: &str, v: &T, eq: impl Fn(&T, &T) -> bool, show: impl Fn() -> String) {
    let bytes = match catch(|| v.to_bytes()) {
        Ok(b) => b,
        Err(p) => {
            st.violation(format!("{ty}:encode-panic:{}", p.sig), J::obj(vec![("type", J::s(ty)), ("value", J::s(show())), ("panic", J::s(p.msg))]));
            return;
        },
    };
    // explicit size hints must not under-estimate wildly; they are only hints, so not checked
    let garbage_len = rng.usize(5);
    let mut padded = bytes.clone();
    padded.extend(rng.bytes(garbage_len));
    let fail = |st: &mut State, reader: &str, what: &str, detail: String| {
        st.violation(
            format!("{ty}:{what}:{reader}"),
            J::obj(vec![("type", J::s(ty)), ("reader", J::s(reader)), ("what", J::s(what)), ("value", J::s(wfv::report::truncate(&show(), 300))), ("encoded", J::s(hex(&bytes[..bytes.len().min(64)]))), ("encoded_len", J::i(bytes.len())), ("detail", J::s(detail))]),
        )
    };
    let mut judge = |st: &mut State, reader: &str, r: Result<Result<(T, usize, bool), DeserializationError>, wfv::report::PanicInfo>| match r {
        Ok(Ok((back, used, more))) => {
            if !eq(&back, v) {
                fail(st, reader, "decoded-value-differs", String::new());
            }
            if used != bytes.len() {
                fail(st, reader, "bytes-consumed", format!("consumed {used}, written {}", bytes.len()));
            }
            if more != (garbage_len > 0) {
                fail(st, reader, "has_more_bytes-after-decode", format!("{more} with {garbage_len} trailing bytes"));
            }
        },
        Ok(Err(e)) => fail(st, reader, "constructor-accepted-value-not-decodable", format!("{e}")),
        Err(p) => fail(st, reader, &format!("decode-panic:{}", p.sig), p.msg),
    };
    // SliceReader
    let r = catch(|| {
        let mut rd = SliceReader::new(&padded);
        decode_and_measure::<T, _>(&mut rd, padded.len())
    });
    judge(st, "SliceReader", r);
    // Cursor
    let r = catch(|| {
        let mut rd = Cursor::new(&padded);
        decode_and_measure::<T, _>(&mut rd, padded.len())
    });
    judge(st, "Cursor", r);
    // ReadAdapter over a chunking source
    let sched = Schedule::random(rng, false);
    let r = catch(|| {
        let mut src = ChunkedSource::new(padded.clone(), sched.clone());
        let mut rd = ReadAdapter::new(&mut src);
        decode_and_measure::<T, _>(&mut rd, padded.len())
    });
    judge(st, "ReadAdapter", r);
    // exact bytes through the convenience constructor
    if garbage_len == 0 {
        match catch(|| T::read_from_bytes(&bytes)) {
            Ok(Ok(b)) if eq(&b, v) => {},
            _ => fail(st, "read_from_bytes", "decoded-value-differs", String::new()),
        }
    }
    st.count(&format!("type.{ty}"));
    st.evals += 1;
    st.distinct.insert(wfv::fnv(&bytes) ^ wfv::fnv(ty.as_bytes()));
    if st.wants_sample(ty) {
        st.sample(ty, || J::obj(vec![("type", J::s(ty)), ("value", J::s(wfv::report::truncate(&show(), 160))), ("encoded", J::s(hex(&bytes[..bytes.len().min(48)]))), ("encoded_len", J::i(bytes.len()))]));
    }
}

fn rt<T: Serializable + Deserializable + PartialEq + Debug>(st: &mut State, rng: &mut Rng, ty: &str, v: &T) {
    rt_with(st, rng, ty, v, |a, b| a == b, || format!("{v:?}"));
}

// GENERATORS
// ================================================================================================

fn sizes() -> Vec<usize> {
    let mut v = vec![0usize, 1, 2, usize::MAX, usize::MAX - 1, 1 << 63, (1 << 63) - 1, (1 << 63) + 1];
    for k in 1..=9u32 {
        let b = 7 * k;
        if b < 64 {
            let x = 1usize << b;
            v.extend_from_slice(&[x - 1, x, x + 1]);
        }
    }
    for b in [8u32, 16, 32, 56, 57, 62] {
        let x = 1usize << b;
        v.extend_from_slice(&[x - 1, x, x + 1]);
    }
    v.sort();
    v.dedup();
    v
}

fn rand_string(rng: &mut Rng) -> String {
    let n = match rng.below(5) {
        0 => 0,
        1 => 127,
        2 => 128,
        _ => rng.usize(40),
    };
    (0..n)
        .map(|_| match rng.below(4) {
            0 => 'é',
            1 => '漢',
            2 => '🦀',
            _ => (b'a' + rng.below(26) as u8) as char,
        })
        .collect()
}

fn primitives(run: &Run) {
    let sz = sizes();
    run.par("primitives", run.size(20_000, 2_000_000), |i, rng, st| {
        let u = if (i as usize) < sz.len() { sz[i as usize] } else if rng.bool() { sz[rng.usize(sz.len())] } else { (rng.u64() >> rng.below(64)) as usize };
        rt(st, rng, "usize", &u);
        rt(st, rng, "u8", &(u as u8));
        rt(st, rng, "u16", &(u as u16));
        rt(st, rng, "u32", &(u as u32));
        rt(st, rng, "u64", &(u as u64));
        rt(st, rng, "u128", &((u as u128) << (i % 65)));
        rt(st, rng, "unit", &());
        let o1 = if rng.bool() { Some(u as u64) } else { None };
        rt(st, rng, "Option<u64>", &o1);
        let o2 = match rng.below(3) {
            0 => None,
            1 => Some(None),
            _ => Some(Some(u as u8)),
        };
        rt(st, rng, "Option<Option<u8>>", &o2);
        let s = rand_string(rng);
        rt(st, rng, "String", &s);
        let vlen = match rng.below(8) {
            0 => 0,
            1 => 127,
            2 => 128,
            3 => 129,
            // around the 256-byte buffer of the streaming reader, and well beyond it
            4 => [255usize, 256, 257, 511, 512, 513][rng.usize(6)],
            5 => rng.range(258, 3000),
            _ => rng.usize(20),
        };
        let v8 = rng.bytes(vlen);
        rt(st, rng, "Vec<u8>", &v8);
        let v64: Vec<u64> = (0..rng.usize(6)).map(|_| rng.u64()).collect();
        rt(st, rng, "Vec<u64>", &v64);
        let ov = if rng.bool() { Some(v8.clone()) } else { None };
        rt(st, rng, "Option<Vec<u8>>", &ov);
        let vv: Vec<Vec<String>> = (0..rng.usize(3)).map(|_| (0..rng.usize(3)).map(|_| rand_string(rng)).collect()).collect();
        rt(st, rng, "Vec<Vec<String>>", &vv);
        rt(st, rng, "(u8,)", &(u as u8,));
        rt(st, rng, "(u8,u16)", &(u as u8, u as u16));
        rt(st, rng, "(u8,String,u32)", &(u as u8, s.clone(), u as u32));
        rt(st, rng, "(usize,u8,u16,u32)", &(u, 1u8, 2u16, 3u32));
        rt(st, rng, "(u8,u8,u8,u8,usize)", &(1u8, 2u8, 3u8, 4u8, u));
        rt(st, rng, "(u8,u16,u32,u64,u128,usize)", &(1u8, 2u16, 3u32, u as u64, 5u128, u));
        // long byte payloads between length-prefixed values (the streaming reader switches buffering strategy there)
        let long_len = *rng.pick(&[255usize, 256, 257, 300, 512, 1000]);
        let long = rng.bytes(long_len);
        let s2 = rand_string(rng);
        rt(st, rng, "(String,Vec<u8>,String)", &(s.clone(), long.clone(), s2));
        rt(st, rng, "(Vec<u8>,u8,Vec<u8>,usize)", &(v8.clone(), u as u8, long.clone(), u));
        let npairs = rng.range(1, 3);
        let mut pairs: Vec<(Vec<u8>, String)> = Vec::new();
        for k in 0..npairs {
            let short_len = rng.usize(20);
            let payload = if k == 1 { rng.bytes(short_len) } else { long.clone() };
            pairs.push((payload, rand_string(rng)));
        }
        rt(st, rng, "Vec<(Vec<u8>,String)>", &pairs);
        rt(st, rng, "[u8;0]", &[0u8; 0]);
        rt(st, rng, "[u16;3]", &[u as u16, 7, 9]);
        let arr32: [u8; 32] = rng.bytes(32).try_into().unwrap();
        rt(st, rng, "[u8;32]", &arr32);
        let m: BTreeMap<u32, String> = (0..rng.usize(5)).map(|_| (rng.u32(), rand_string(rng))).collect();
        rt(st, rng, "BTreeMap<u32,String>", &m);
        let set: BTreeSet<u64> = (0..rng.usize(6)).map(|_| rng.u64() >> rng.below(64)).collect();
        rt(st, rng, "BTreeSet<u64>", &set);
        let nested: BTreeMap<String, Vec<Option<(u8, usize)>>> = (0..rng.usize(3)).map(|_| (rand_string(rng), (0..rng.usize(3)).map(|_| if rng.bool() { Some((rng.u32() as u8, sz[rng.usize(sz.len())])) } else { None }).collect())).collect();
        rt(st, rng, "BTreeMap<String,Vec<Option<(u8,usize)>>>", &nested);
    });
}

fn elements<B: Fld>(run: &Run) {
    let bnd = boundary_elements::<B>();
    run.par(&format!("elements-{}", B::NAME), run.size(5_000, 500_000), |i, rng, st| {
        let e = if (i as usize) < bnd.len() { bnd[i as usize] } else { rand_el::<B, B>(rng) };
        // canonical and produced by operation chains (other internal representation)
        let chain = (e + e - e) * B::ONE - B::ZERO;
        rt(st, rng, &format!("{}::BaseElement", B::NAME), &e);
        rt(st, rng, &format!("{}::BaseElement", B::NAME), &chain);
        rt(st, rng, &format!("{}::BaseElement", B::NAME), &(-(-e)));
        let q = QuadExtension::<B>::new(e, rand_el::<B, B>(rng));
        rt(st, rng, &format!("QuadExtension<{}>", B::NAME), &q);
        if CubeExtension::<B>::is_supported() {
            let c = CubeExtension::<B>::new(e, rand_el::<B, B>(rng), chain);
            rt(st, rng, &format!("CubeExtension<{}>", B::NAME), &c);
        }
        let k = rng_small(rng);
        let v: Vec<B> = rand_vec::<B, B>(rng, k);
        rt(st, rng, &format!("Vec<{}::BaseElement>", B::NAME), &v);
        let o: Option<QuadExtension<B>> = if rng.bool() { Some(q) } else { None };
        rt(st, rng, &format!("Option<QuadExtension<{}>>", B::NAME), &o);
    });
}
fn rng_small(rng: &mut Rng) -> usize {
    rng.usize(9)
}

fn digests<H: Hasher>(run: &Run, hname: &str)
where
    H::Digest: Debug,
{
    run.par(&format!("digest-{hname}"), run.size(2_000, 200_000), |_i, rng, st| {
        let k = rng_small(rng);
        let d = H::hash(&rng.bytes(k));
        rt(st, rng, &format!("{hname}::Digest"), &d);
        let two = [d, H::merge(&[d, d])];
        rt(st, rng, &format!("[{hname}::Digest;2]"), &two);
        let v: Vec<H::Digest> = (0..rng.usize(4)).map(|k| H::merge_with_int(d, k as u64)).collect();
        rt(st, rng, &format!("Vec<{hname}::Digest>"), &v);
    });
}

fn rand_options(rng: &mut Rng, boundary: bool) -> ProofOptions {
    let q = if boundary { *rng.pick(&[1, 2, 254, 255]) } else { rng.range(1, 255) };
    let blowup = if boundary { *rng.pick(&[2, 128]) } else { 1 << rng.range(1, 7) };
    let grind = if boundary { *rng.pick(&[0, 1, 31, 32]) } else { rng.range(0, 32) as u32 };
    let ext = *rng.pick(&[FieldExtension::None, FieldExtension::Quadratic, FieldExtension::Cubic]);
    let fold = 1 << rng.range(1, 4);
    let rem = (1usize << rng.range(0, 8)) - 1;
    ProofOptions::new(q, blowup, grind, ext, fold, rem)
}

fn rand_trace_info(rng: &mut Rng) -> TraceInfo {
    let meta_len = *rng.pick(&[0usize, 0, 0, 1, 7, 8, 255, 256, 65534, 65535]);
    let meta = rng.bytes(meta_len);
    let length = 1usize << rng.range(3, 32);
    match rng.below(6) {
        0 => TraceInfo::with_meta(*rng.pick(&[1, 2, 254, 255]), length, meta),
        1 => TraceInfo::with_meta(rng.range(1, 255), length, meta),
        2 => {
            // auxiliary segment with 0 random elements (the shape of the repository's own Lagrange test)
            let main = rng.range(1, 200);
            TraceInfo::new_multi_segment(main, rng.range(1, 255 - main), 0, length, meta)
        },
        3 => {
            let main = *rng.pick(&[1usize, 127, 254]);
            TraceInfo::new_multi_segment(main, 255 - main, *rng.pick(&[1, 255]), length, meta)
        },
        _ => {
            let main = rng.range(1, 254);
            TraceInfo::new_multi_segment(main, rng.range(1, 255 - main), rng.range(1, 255), length, meta)
        },
    }
}

fn air_types(run: &Run) {
    run.par("air-types", run.size(20_000, 2_000_000), |i, rng, st| {
        let o = rand_options(rng, i % 4 == 0);
        rt(st, rng, "ProofOptions", &o);
        let fe = *rng.pick(&[FieldExtension::None, FieldExtension::Quadratic, FieldExtension::Cubic]);
        rt_with(st, rng, "FieldExtension", &fe, |a, b| a == b, || format!("{fe:?}"));
        let ti = rand_trace_info(rng);
        rt(st, rng, "TraceInfo", &ti);
        // a trace description between other length-prefixed values
        if ti.meta().len() <= 300 {
            let (sa, sb) = (rand_string(rng), rand_string(rng));
            rt(st, rng, "(String,TraceInfo,String)", &(sa, ti.clone(), sb));
            let other = rand_trace_info(rng);
            rt(st, rng, "Vec<TraceInfo>", &vec![ti.clone(), other, ti.clone()]);
        }
        if ti.main_trace_width() >= 254 || ti.width() == 255 {
            st.count("traceinfo.width_ge_254");
        }
        if ti.is_multi_segment() && ti.get_num_aux_segment_rand_elements() == 0 {
            st.count("traceinfo.aux_with_zero_rand_elements");
        }
        if ti.meta().len() >= 65534 {
            st.count("traceinfo.meta_ge_65534");
        }
        // Context::new refuses lde domains beyond 2^32 (documented limit): stay below
        if ti.length() * o.blowup_factor() <= u32::MAX as usize {
            let ctx = match rng.below(3) {
                0 => Context::new::<f62::BaseElement>(ti.clone(), o.clone()),
                1 => Context::new::<f64::BaseElement>(ti.clone(), o.clone()),
                _ => Context::new::<f128::BaseElement>(ti.clone(), o.clone()),
            };
            rt(st, rng, "Context", &ctx);
        }
    });
}

fn proof_parts<B: Fld, E: FieldElement<BaseField = B>, H: ElementHasher<BaseField = B>>(run: &Run, hname: &str)
where
    H::Digest: Debug,
{
    let tag = format!("{}/{}", type_name::<B, E>(), hname);
    run.par(&format!("parts-{tag}"), run.size(150, 15_000), |i, rng, st| {
        // Commitments
        let nseg = rng.range(1, 2);
        let nfri = rng.range(1, 12);
        let roots: Vec<H::Digest> = (0..nseg).map(|_| H::hash(&rng.bytes(8))).collect();
        let fri_roots: Vec<H::Digest> = (0..nfri).map(|_| H::hash(&rng.bytes(8))).collect();
        let c = Commitments::new::<H>(roots.clone(), H::hash(b"c"), fri_roots.clone());
        rt(st, rng, "Commitments", &c);
        match c.clone().parse::<H>(nseg, nfri - 1) {
            Ok((t, cc, f)) if t == roots && cc == H::hash(b"c") && f == fri_roots => {},
            _ => st.violation("Commitments:parse", J::s(&tag)),
        }
        // Queries: 1 / 255 queries, 1 / 255 columns and sizes in between
        let depth = rng.range(8, 10);
        let nq = match i % 5 {
            0 => 1,
            1 => 255,
            _ => rng.range(1, 60),
        };
        let ncols = match (i / 5) % 5 {
            0 => 1,
            1 => 255,
            _ => rng.range(1, 40),
        };
        let n = 1usize << depth;
        let rows: Vec<Vec<E>> = (0..nq).map(|_| rand_vec::<B, E>(rng, ncols)).collect();
        let mut pos = std::collections::BTreeSet::new();
        while pos.len() < nq {
            pos.insert(rng.usize(n));
        }
        let pos: Vec<usize> = pos.into_iter().collect();
        let mut leaves: Vec<H::Digest> = (0..n).map(|k| H::merge_with_int(H::hash(b"l"), k as u64)).collect();
        for (p, r) in pos.iter().zip(&rows) {
            leaves[*p] = H::hash_elements(r);
        }
        let tree = MerkleTree::<H>::new(leaves).unwrap();
        let bp = tree.prove_batch(&pos).unwrap();
        let q = Queries::new::<H, E>(bp, rows.clone());
        rt_with(st, rng, "Queries", &q, |a, b| a == b, || format!("{nq} queries x {ncols} columns"));
        match catch(|| q.clone().parse::<H, E>(n, nq, ncols)) {
            Ok(Ok((mp, table))) => {
                let same = table.rows().zip(&rows).all(|(a, b)| a == &b[..]) && table.num_rows() == nq && table.num_columns() == ncols;
                if !same || MerkleTree::<H>::verify_batch(tree.root(), &pos, &mp).is_err() {
                    st.violation("Queries:parse-content", J::s(format!("{tag} {nq}x{ncols}")));
                }
            },
            Ok(Err(e)) => st.violation("Queries:constructor-accepted-value-not-parsable", J::s(format!("{tag} {nq} queries x {ncols} columns: {e}"))),
            Err(p) => st.violation(format!("Queries:parse-panic:{}", p.sig), J::s(format!("{tag} {nq} queries x {ncols} columns: {}", p.msg))),
        }
        if nq == 255 {
            st.count("queries.255_queries");
        }
        if ncols == 255 {
            st.count("queries.255_columns");
        }
        // OodFrame with / without Lagrange frame
        let main_w = rng.range(1, 60);
        let aux_w = if rng.bool() { 0 } else { rng.range(1, 20) };
        let lagr = aux_w > 0 && rng.bool();
        let cur = rand_vec::<B, E>(rng, main_w + aux_w - lagr as usize);
        let nxt = rand_vec::<B, E>(rng, main_w + aux_w - lagr as usize);
        let lk = rng.range(4, 21);
        let lf = if lagr { Some(LagrangeKernelEvaluationFrame::new(rand_vec::<B, E>(rng, lk))) } else { None };
        let tf = TraceOodFrame::new(cur.clone(), nxt.clone(), main_w, lf);
        let mut ood = OodFrame::default();
        let _ = ood.set_trace_states::<E, H>(&tf);
        let ne = rng.range(1, 8);
        let evals = rand_vec::<B, E>(rng, ne);
        ood.set_constraint_evaluations(&evals);
        rt_with(st, rng, "OodFrame", &ood, |a, b| a == b, || format!("main {main_w} aux {aux_w} lagrange {lagr}"));
        match catch(|| ood.clone().parse::<E>(main_w, aux_w, evals.len())) {
            Ok(Ok((f, ev))) if f.current_row() == &cur[..] && f.next_row() == &nxt[..] && ev == evals && f.lagrange_kernel_frame().is_some() == lagr => {},
            Ok(Ok(_)) => st.violation("OodFrame:parse-content", J::s(&tag)),
            Ok(Err(e)) => st.violation("OodFrame:constructor-accepted-value-not-parsable", J::s(format!("{tag}: {e}"))),
            Err(p) => st.violation(format!("OodFrame:parse-panic:{}", p.sig), J::s(p.msg)),
        }
        if lagr {
            st.count("oodframe.with_lagrange");
        }
        // FriProof: 0..max layers, remainders of 1..256 coefficients
        let blowup = 1usize << rng.range(1, 4);
        let fold = 1usize << rng.range(1, 4);
        let rem = (1usize << rng.range(0, 8)) - 1;
        let log_poly = rng.range(2, 9);
        let domain = (1usize << log_poly) * blowup;
        let fo = FriOptions::new(blowup, fold, rem);
        if domain >= 8 && frih::schedule_well_formed(domain, &fo) {
            let p = rand_vec::<B, E>(rng, 1 << log_poly);
            let ev = frih::evaluate::<B, E>(&p, domain);
            let mut prover = FriProver::<B, E, frih::Chan<E, H>, H>::new(fo.clone());
            let nqr = rng.range(1, 40.min(domain - 1));
            let inst = frih::prove::<B, E, H>(&mut prover, ev, &fo, nqr, None);
            rt(st, rng, "FriProof", &inst.proof);
            st.count(&format!("friproof.layers_{}", inst.proof.num_layers().min(3)));
            if inst.proof.num_remainder_elements::<E>() == 256 {
                st.count("friproof.remainder_256");
            }
        }
        let _ = i;
    });
}

fn main() {
    let run = Run::start("C12");
    type B62 = f62::BaseElement;
    type B64 = f64::BaseElement;
    type B128 = f128::BaseElement;
    primitives(&run);
    elements::<B62>(&run);
    elements::<B64>(&run);
    elements::<B128>(&run);
    digests::<Blake3_256<B64>>(&run, "Blake3_256");
    digests::<Blake3_192<B64>>(&run, "Blake3_192");
    digests::<Sha3_256<B62>>(&run, "Sha3_256");
    digests::<Rp64_256>(&run, "Rp64_256");
    digests::<RpJive64_256>(&run, "RpJive64_256");
    digests::<Rp62_248>(&run, "Rp62_248");
    air_types(&run);
    proof_parts::<B64, B64, Blake3_256<B64>>(&run, "Blake3_256");
    proof_parts::<B64, QuadExtension<B64>, Rp64_256>(&run, "Rp64_256");
    proof_parts::<B64, CubeExtension<B64>, RpJive64_256>(&run, "RpJive64_256");
    proof_parts::<B62, B62, Rp62_248>(&run, "Rp62_248");
    proof_parts::<B62, CubeExtension<B62>, Blake3_192<B62>>(&run, "Blake3_192");
    proof_parts::<B128, QuadExtension<B128>, Sha3_256<B128>>(&run, "Sha3_256");
    let mut require: Vec<(String, u64)> = ["usize", "String", "Vec<u8>", "BTreeMap<u32,String>", "ProofOptions", "TraceInfo", "Context", "Commitments", "Queries", "OodFrame", "FriProof", "Rp62_248::Digest", "QuadExtension<f128>", "CubeExtension<f62>"].iter().map(|t| (format!("type.{t}"), 2)).collect();
    for k in ["traceinfo.width_ge_254", "traceinfo.aux_with_zero_rand_elements", "traceinfo.meta_ge_65534", "queries.255_queries", "queries.255_columns", "oodframe.with_lagrange", "friproof.layers_0", "friproof.layers_2", "friproof.remainder_256"] {
        require.push((k.to_string(), 1));
    }
    run.finish(Finish {
        rule: "per type, generated values incl. boundary members (sizes 0,1,2^7k-1/2^7k/2^7k+1,2^63,usize::MAX; empty/127/128/255..257/512/up to 3000-element collections; long byte payloads and trace descriptions between other length-prefixed values; multi-byte strings; nested compositions; boundary field elements also via operation chains; digests of all six hashers; ProofOptions over the constructor space with boundaries; TraceInfo with widths 1/254/255, aux segments with 0 and >0 random elements, metadata of 0..65535 bytes, lengths 2^3..2^32; Context; Commitments; Queries with 1/255 queries x 1/255 columns; OodFrame with/without Lagrange frame; FriProof with 0..max layers and 1..256 remainder coefficients) are encoded and decoded through SliceReader, Cursor and ReadAdapter (random chunking) with 0..4 trailing garbage bytes: decoded == original, consumed == written, has_more_bytes == (garbage > 0); parse() of the proof components must return the original content. distinct = distinct (type, encoding)".into(),
        assumptions: vec!["equality is the type's own PartialEq".into(), "whole proofs produced by the prover are round-tripped in C01".into()],
        exhaustive: false,
        require,
        extra: vec![],
    });
}
