//! C13 Streaming reader == slice reader: operation histories are applied in lock-step to
//! ReadAdapter (over a chunking source) and to SliceReader (the executable model) on the same
//! bytes; every return value and error must agree, and at the end of a history the bytes the
//! adapter can still deliver must be exactly the unread rest of the stream (no byte lost or
//! delivered twice).
use winter_utils::{ByteReader, DeserializationError, ReadAdapter, SliceReader};
use wfv::{
    catch,
    chunks::{ChunkedSource, Schedule},
    hex, Finish, Rng, Run, State, J,
};

/// The model is the SliceReader itself, driven directly (a wrapper would replace the reader's own versions of the
/// provided trait methods by the trait defaults). Its position is measured from outside: the number of bytes it
/// can still deliver is the largest k for which its look-ahead check succeeds.
struct Model<'a> {
    inner: SliceReader<'a>,
    pos: usize,
    len: usize,
}
impl<'a> Model<'a> {
    fn update_position(&mut self) {
        let (mut lo, mut hi) = (0usize, self.len);
        // invariant: check_eor(lo) is Ok; find the largest such value <= len
        while lo < hi {
            let mid = lo + (hi - lo + 1) / 2;
            if self.inner.check_eor(mid).is_ok() {
                lo = mid;
            } else {
                hi = mid - 1;
            }
        }
        self.pos = self.len - lo;
    }
}

#[derive(Clone, Debug, PartialEq)]
enum Op {
    U8,
    Peek,
    Bool,
    U16,
    U32,
    U64,
    U128,
    Usize,
    Slice(usize),
    Array(usize),
    Vec(usize),
    Str(usize),
    ManyU8(usize),
    ManyU64(usize),
    ManyString(usize),
    CheckEor(usize),
    HasMore,
}

const ARRAY_SIZES: [usize; 15] = [0, 1, 2, 3, 4, 7, 8, 16, 31, 32, 33, 64, 255, 256, 257];

#[derive(Clone, Debug, PartialEq)]
enum Res {
    Bytes(Vec<u8>),
    Num(u128),
    Bool(bool),
    Text(String),
    Texts(Vec<String>),
    Nums(Vec<u64>),
    Unit,
    Err(String),
}

fn err(e: DeserializationError) -> Res {
    Res::Err(format!("{e:?}"))
}

fn array<R: ByteReader>(r: &mut R, n: usize) -> Res {
    macro_rules! arr {
        ($($k:literal),*) => {
            match n {
                $($k => r.read_array::<$k>().map(|a| Res::Bytes(a.to_vec())).unwrap_or_else(err),)*
                _ => unreachable!(),
            }
        };
    }
    arr!(0, 1, 2, 3, 4, 7, 8, 16, 31, 32, 33, 64, 255, 256, 257)
}

fn apply<R: ByteReader>(r: &mut R, op: &Op) -> Res {
    match op {
        Op::U8 => r.read_u8().map(|v| Res::Bytes(vec![v])).unwrap_or_else(err),
        Op::Peek => r.peek_u8().map(|v| Res::Num(v as u128)).unwrap_or_else(err),
        Op::Bool => r.read_bool().map(Res::Bool).unwrap_or_else(err),
        Op::U16 => r.read_u16().map(|v| Res::Num(v as u128)).unwrap_or_else(err),
        Op::U32 => r.read_u32().map(|v| Res::Num(v as u128)).unwrap_or_else(err),
        Op::U64 => r.read_u64().map(|v| Res::Num(v as u128)).unwrap_or_else(err),
        Op::U128 => r.read_u128().map(Res::Num).unwrap_or_else(err),
        Op::Usize => r.read_usize().map(|v| Res::Num(v as u128)).unwrap_or_else(err),
        Op::Slice(n) => r.read_slice(*n).map(|s| Res::Bytes(s.to_vec())).unwrap_or_else(err),
        Op::Array(n) => array(r, *n),
        Op::Vec(n) => r.read_vec(*n).map(Res::Bytes).unwrap_or_else(err),
        Op::Str(n) => r.read_string(*n).map(Res::Text).unwrap_or_else(err),
        Op::ManyU8(n) => r.read_many::<u8>(*n).map(Res::Bytes).unwrap_or_else(err),
        Op::ManyU64(n) => r.read_many::<u64>(*n).map(Res::Nums).unwrap_or_else(err),
        Op::ManyString(n) => r.read_many::<String>(*n).map(Res::Texts).unwrap_or_else(err),
        Op::CheckEor(n) => r.check_eor(*n).map(|_| Res::Unit).unwrap_or_else(err),
        Op::HasMore => Res::Bool(r.has_more_bytes()),
    }
}

fn opname(op: &Op) -> &'static str {
    match op {
        Op::U8 => "read_u8",
        Op::Peek => "peek_u8",
        Op::Bool => "read_bool",
        Op::U16 => "read_u16",
        Op::U32 => "read_u32",
        Op::U64 => "read_u64",
        Op::U128 => "read_u128",
        Op::Usize => "read_usize",
        Op::Slice(_) => "read_slice",
        Op::Array(_) => "read_array",
        Op::Vec(_) => "read_vec",
        Op::Str(_) => "read_string",
        Op::ManyU8(_) => "read_many_u8",
        Op::ManyU64(_) => "read_many_u64",
        Op::ManyString(_) => "read_many_string",
        Op::CheckEor(_) => "check_eor",
        Op::HasMore => "has_more_bytes",
    }
}

fn len_choice(rng: &mut Rng, remaining: usize) -> usize {
    match rng.below(14) {
        0 => 0,
        1 => 1,
        2 => *rng.pick(&[15, 16, 17]),
        3 => *rng.pick(&[255, 256, 257]),
        4 => remaining.saturating_sub(1),
        5 => remaining,
        6 => remaining + 1,
        7 => rng.usize(remaining + 2),
        8 => *rng.pick(&[511, 512, 513, 1024]),
        _ => rng.usize(40),
    }
}

fn gen_op(rng: &mut Rng, remaining: usize) -> Op {
    match rng.below(22) {
        0 | 1 => Op::U8,
        2 => Op::Peek,
        3 => Op::Bool,
        4 => Op::U16,
        5 => Op::U32,
        6 => Op::U64,
        7 => Op::U128,
        8 | 9 => Op::Usize,
        10 | 11 => Op::Slice(len_choice(rng, remaining)),
        12 | 13 => Op::Array(*rng.pick(&ARRAY_SIZES)),
        14 => Op::Vec(len_choice(rng, remaining)),
        15 => Op::Str(rng.usize(12)),
        16 => Op::ManyU8(len_choice(rng, remaining).min(600)),
        17 => Op::ManyU64(rng.usize(6)),
        18 => Op::ManyString(rng.usize(3)),
        19 => Op::CheckEor(match rng.below(4) {
            0 => usize::MAX,
            1 => 1 << 40,
            _ => len_choice(rng, remaining),
        }),
        _ => Op::HasMore,
    }
}

fn stream(rng: &mut Rng) -> Vec<u8> {
    let n = match rng.below(8) {
        0 => rng.usize(4),
        1 => *rng.pick(&[255, 256, 257, 512]),
        _ => rng.usize(2000),
    };
    let mut v = rng.bytes(n);
    match rng.below(4) {
        0 => {
            // ASCII so that strings decode, small length prefixes (vint with one byte: (len << 1) | 1)
            for b in v.iter_mut() {
                *b = b'a' + (*b % 26);
            }
            for i in (0..v.len()).step_by(9) {
                v[i] = ((rng.usize(6) as u8) << 1) | 1;
            }
        },
        1 => {
            // many bytes with trailing zero bits: multi-byte usize encodings, incl. the 9-byte form
            for i in (0..v.len()).step_by(5) {
                v[i] = [0u8, 2, 4, 8, 16, 32, 64, 128][rng.usize(8)];
            }
        },
        2 => {
            for b in v.iter_mut() {
                *b &= 1; // valid booleans
            }
        },
        _ => {},
    }
    v
}

fn run_history(i: u64, rng: &mut Rng, st: &mut State) {
    let data = stream(rng);
    let sched = Schedule::random(rng, true);
    let class = sched.class();
    let mut src = ChunkedSource::new(data.clone(), sched.clone());
    let stats = src.stats.clone();
    let mut adapter = ReadAdapter::new(&mut src);
    let mut model = Model { inner: SliceReader::new(&data), pos: 0, len: data.len() };
    let nops = rng.range(1, 200);
    let mut hist: Vec<String> = Vec::new();
    let mut strict = true;
    let witness = |hist: &[String], what: &str, a: &Res, m: &Res| {
        J::obj(vec![
            ("stream_len", J::i(data.len())),
            ("stream_prefix", J::s(hex(&data[..data.len().min(48)]))),
            ("chunking", J::s(format!("{sched:?}"))),
            ("history", J::arr_s(&hist[hist.len().saturating_sub(12)..])),
            ("what", J::s(what)),
            ("adapter", J::s(wfv::report::truncate(&format!("{a:?}"), 200))),
            ("slice_reader", J::s(wfv::report::truncate(&format!("{m:?}"), 200))),
        ])
    };
    let mut errors = 0u32;
    for _ in 0..nops {
        let mpos = model.pos;
        let op = gen_op(rng, data.len() - mpos.min(data.len()));
        hist.push(format!("{op:?}"));
        let rm = match catch(|| apply(&mut model.inner, &op)) {
            Ok(r) => {
                model.update_position();
                r
            },
            Err(p) => {
                // the in-memory reader itself must not panic either
                st.violation(format!("slice-reader-panic:{}:{}", opname(&op), p.sig), J::obj(vec![("op", J::s(format!("{op:?}"))), ("panic", J::s(p.msg)), ("stream_len", J::i(data.len())), ("position", J::i(mpos))]));
                return;
            },
        };
        let ra = match catch(|| apply(&mut adapter, &op)) {
            Ok(r) => r,
            Err(p) => {
                st.violation(format!("adapter-panic:{}:{}", opname(&op), p.sig), J::obj(vec![("panic", J::s(p.msg)), ("case", witness(&hist, "panic", &Res::Unit, &rm))]));
                return;
            },
        };
        st.count(&format!("op.{}", opname(&op)));
        st.evals += 1;
        if stats.empty_read_before_eof.get() && strict {
            // from the first zero-length read before the real end, the source has signalled
            // end-of-file in the std::io::Read sense; only the unconditional part is enforced
            strict = false;
            st.count("histories.switched_to_weak_mode_after_empty_read");
        }
        if strict {
            let ok = match (&op, &ra, &rm) {
                // optimistic look-ahead is allowed only while the end has not been observed
                (Op::CheckEor(_), Res::Unit, Res::Err(_)) => {
                    st.count("check_eor.optimistic_ok");
                    !stats.eof_signalled.get()
                },
                _ => ra == rm,
            };
            if !ok {
                let what = match (&ra, &rm) {
                    (Res::Err(_), Res::Err(_)) => "different-error",
                    (Res::Err(_), _) => "error-where-data-is-available",
                    (_, Res::Err(_)) => "value-where-model-errs",
                    _ => "different-value",
                };
                st.violation(format!("{}:{}:{}", opname(&op), what, class), witness(&hist, what, &ra, &rm));
                return;
            }
        } else {
            // weak mode: an error of the adapter is not judged (the source has signalled end-of-file
            // in the std::io::Read sense) and ends the history; but whatever the adapter returns
            // successfully must still be what the model returns, i.e. the next unread bytes
            if matches!(ra, Res::Err(_)) && !matches!(rm, Res::Err(_)) {
                st.count("weak_mode.adapter_error_after_empty_read_info");
                return;
            }
            if matches!(ra, Res::Err(_)) {
                // both failed; consumption inside composite operations may differ from here on
                st.count("weak_mode.both_failed_end_of_history");
                return;
            }
            let optimistic = matches!((&op, &ra, &rm), (Op::CheckEor(_), Res::Unit, Res::Err(_)));
            // has_more_bytes may legitimately say `false` after an empty read
            if ra != rm && !optimistic && !matches!(op, Op::HasMore) {
                st.violation(format!("{}:wrong-value-after-empty-read", opname(&op)), witness(&hist, "weak-mode", &ra, &rm));
                return;
            }
            if ra != rm && matches!(op, Op::HasMore) {
                st.count("weak_mode.has_more_bytes_false_after_empty_read_info");
            }
        }
        if matches!(rm, Res::Err(_)) {
            // both readers run the same composite code on top of primitives that either deliver or
            // leave the position untouched, so histories continue after errors
            errors += 1;
        }
    }
    // conservation: what the adapter still delivers is exactly the unread rest of the stream
    if errors > 0 {
        st.count("histories.with_errors");
    }
    let mpos = model.pos;
    if strict {
        let mut rest = Vec::new();
        let drained = catch(|| {
            while let Ok(b) = adapter.read_u8() {
                rest.push(b);
                if rest.len() > data.len() + 8 {
                    break;
                }
            }
        });
        if stats.empty_read_before_eof.get() {
            // a zero-length read arrived during the drain: end-of-file in the Read sense
            st.count("histories.drain_cut_by_empty_read");
        } else if drained.is_err() || rest != data[mpos..] {
            st.violation(
                format!("conservation:{class}"),
                J::obj(vec![("stream_len", J::i(data.len())), ("model_position", J::i(mpos)), ("adapter_delivers", J::i(rest.len())), ("expected", J::i(data.len() - mpos)), ("chunking", J::s(format!("{sched:?}"))), ("history", J::arr_s(&hist[hist.len().saturating_sub(12)..]))]),
            );
        }
        if !stats.empty_read_before_eof.get() && stats.served.get() != data.len() {
            st.violation("conservation:source-not-drained", J::i(stats.served.get()));
        }
        st.count("histories.conservation_checked");
    }
    st.case(wfv::fnv(format!("{i}{:?}{}", hist, data.len()).as_bytes()), hist.len() >= 2);
    st.count(&format!("chunking.{class}"));
    st.sample(class, || J::obj(vec![("stream_len", J::i(data.len())), ("chunking", J::s(format!("{sched:?}"))), ("history", J::arr_s(&hist[..hist.len().min(10)]))]));
}

fn main() {
    let run = Run::start("C13");
    let single = matches!(std::env::var("VERIF_STAGE").as_deref(), Ok("asan") | Ok("miri"));
    let n = if std::env::var("VERIF_STAGE").as_deref() == Ok("miri") { run.size(60, 400) } else { run.size(600_000, 40_000_000) };
    if single {
        run.seq("hist", n, run_history);
    } else {
        run.par("hist", n, run_history);
    }
    let mut require = vec![("histories.conservation_checked".to_string(), n / 20), ("histories.with_errors".to_string(), n / 50)];
    if n >= 10_000 {
        for c in ["one-byte", "fixed-small", "fixed-around-buffer", "straddle-256", "random-cycle", "whole", "empty-reads-before-eof"] {
            require.push((format!("chunking.{c}"), 100));
        }
        for o in ["read_u8", "peek_u8", "read_bool", "read_u16", "read_u32", "read_u64", "read_u128", "read_usize", "read_slice", "read_array", "read_vec", "read_string", "read_many_u8", "read_many_u64", "read_many_string", "check_eor", "has_more_bytes"] {
            require.push((format!("op.{o}"), 1000));
        }
    }
    run.finish(Finish {
        rule: "histories of 1..200 operations over {read_u8, peek_u8, read_bool, read_u16/32/64/128, read_usize, read_slice(n), read_array<N in {0,1,2,3,4,7,8,16,31,32,33,64,255,256,257}>, read_vec, read_string, read_many<u8|u64|String>, check_eor(n incl. usize::MAX), has_more_bytes}; lengths biased to 0,1,15..17,255..257,remaining-1/remaining/remaining+1; streams of 0..2000 bytes (random, ASCII with length prefixes, multi-byte size encodings, booleans); chunkings: 1-byte, fixed 2..9, fixed around 16/256/512, whole, cycles straddling 256, random cycles, zero-length reads before the end. Lock-step comparison of every return value/error with SliceReader; histories continue after errors (both readers leave the position untouched when a primitive read fails); final drain must deliver exactly the unread rest. After a zero-length read before the end only the unconditional part is enforced (no panic, returned bytes are the next unread bytes). non-trivial = history of >= 2 operations; distinct = distinct (history, stream)".into(),
        assumptions: vec![
            "SliceReader is the executable model".into(),
            "a zero-length read is std::io::Read's end-of-file signal: value/error divergence after one is counted as INFO (weak_mode.value_divergence_info), not as a violation".into(),
            "check_eor may answer Ok where the model answers Err only while the source has not signalled its end".into(),
        ],
        exhaustive: false,
        require,
        extra: vec![],
    });
}
