//! C02 Soundness on invalid traces / other statements: every cell of a valid trace is corrupted in
//! turn and proven (the release prover does not validate); the reference validity predicate decides
//! whether the corrupted trace is still valid (then the proof must be accepted) or not (then it
//! must be rejected). Honest proofs are also checked against perturbed public inputs.
use std::sync::Arc;

use winter_air::{proof::Proof, FieldExtension};
use winter_verifier::AcceptableOptions;
use wfv::{
    genair::*,
    stark::{self, Fd, Instance, Proved, COMBOS},
    Finish, Rng, Run, State, J,
};

fn step_class(sh: &Shape, col: usize, s: usize) -> Vec<&'static str> {
    let n = sh.n();
    let e = sh.exemptions;
    let mut v = Vec::new();
    if s == 0 {
        v.push("first-step");
    }
    if s == n - e {
        v.push("last-enforced-row");
    }
    if s + 1 == n - e {
        v.push("row-before-exemption-boundary");
    }
    if s == n - e + 1 {
        v.push("first-free-row");
    }
    if s == n - 1 {
        v.push("last-step");
    }
    for a in &sh.asserts {
        if a.col == col && a.steps(n).contains(&s) {
            v.push(match a.kind {
                AKind::Single(_) => "asserted-single",
                AKind::Periodic { .. } => "asserted-periodic",
                AKind::Sequence { .. } => "asserted-sequence",
            });
        }
    }
    if v.is_empty() {
        v.push("interior");
    }
    v
}

fn shape_for(i: u64, rng: &mut Rng) -> Shape {
    // small shapes so that every cell can be corrupted; a few structured ones first
    let lim = Limits { max_log_n: if i % 7 == 0 { 6 } else { 5 }, max_width: 5, max_blowup: *rng.pick(&[2, 4, 8]), allow_aux: i % 3 == 0 };
    let mut sh = Shape::random(rng, &lim);
    if i % 5 == 0 {
        // make sure all three assertion kinds are present on a dedicated periodic column
        let n = sh.n();
        sh.periodic.push(Per::UnitProduct(4));
        sh.rules.push(Rule::MulPer { per: sh.periodic.len() - 1, src: None });
        let c = sh.rules.len() - 1;
        sh.asserts.push(ASpec { col: c, kind: AKind::Periodic { first: 1, stride: 4 } });
        sh.rules.push(Rule::Pow { d: 2, a: 1, b: 1, src: 0, per: None });
        sh.asserts.push(ASpec { col: c + 1, kind: AKind::Sequence { first: 1, stride: n / 4 } });
        // and a sequence assertion whose values are all equal (on a constant column)
        sh.rules.push(Rule::Pow { d: 1, a: 1, b: 0, src: c + 2, per: None });
        sh.asserts.push(ASpec { col: c + 2, kind: AKind::Sequence { first: n / 4 - 1, stride: n / 4 } });
        sh.exemptions = sh.exemptions.min(sh.max_exemptions());
    }
    // Lagrange kernel column, auxiliary segment narrower than / as wide as the main segment
    if i % 6 == 0 {
        let w = sh.width();
        sh.aux = Some(AuxShape { cols: 1 + (i as usize / 6) % w.max(1), rands: 1, lagrange: true });
        sh.exemptions = sh.exemptions.min(sh.max_exemptions()).max(1);
    }
    // more auxiliary than main transition constraints; every second time also more auxiliary than
    // main assertions
    if i % 6 == 3 {
        let w = sh.width();
        let mut cols = w + 1 + (i as usize / 6) % 2;
        if i % 12 == 9 {
            sh.asserts.truncate(1 + (i as usize / 12) % 2);
            cols = cols.max(sh.asserts.len() + 1 + (i as usize / 24) % 2);
        }
        sh.aux = Some(AuxShape { cols, rands: (i as usize / 12) % 3, lagrange: false });
        sh.exemptions = sh.exemptions.min(sh.max_exemptions()).max(1);
    }
    // trace metadata at the element-chunk boundaries of the three fields
    if i % 3 == 1 {
        let lens = [1usize, 3, 7, 8, 9, 15, 16, 17, 22, 24, 31, 32, 33, 46, 50, 64, 100];
        let l = lens[rng.usize(lens.len())];
        sh.meta = rng.bytes(l);
    }
    sh
}

fn case(i: u64, rng: &mut Rng, st: &mut State, full: bool) {
    let (fd, hs) = COMBOS[(i % COMBOS.len() as u64) as usize];
    let ext = match (i / 12) % 3 {
        0 => FieldExtension::None,
        1 => FieldExtension::Quadratic,
        _ if stark::cubic_supported(fd) => FieldExtension::Cubic,
        _ => FieldExtension::None,
    };
    let shape = Arc::new(shape_for(i, rng));
    let n = shape.n();
    let w = shape.width();
    // a proof for a degenerate (e.g. constant) trace is bound to its statement through the query
    // positions only: keep the chance of drawing the same positions under another seed below 2^-40
    let options = loop {
        let o = random_options(rng, &shape, ext, 16);
        let lde_bits = (shape.n() * o.blowup_factor()).ilog2() as usize;
        if o.num_queries() * lde_bits >= 40 {
            break o;
        }
    };
    let (cols, values) = stark::gen_trace(fd, &shape, rng, TraceKind::Random);
    let p = stark::modulus(fd);
    let acc = AcceptableOptions::MinConjecturedSecurity(0);
    let describe = |c: usize, s: usize, what: &str, extra: String| {
        J::obj(vec![("field", J::s(format!("{fd:?}"))), ("hasher", J::s(format!("{hs:?}"))), ("extension", J::s(format!("{ext:?}"))), ("options", J::s(format!("{options:?}"))), ("shape", shape.json()), ("corrupted_column", J::i(c)), ("corrupted_step", J::i(s)), ("step_classes", J::arr_s(&step_class(&shape, c, s))), ("what", J::s(what)), ("detail", J::s(extra))])
    };
    // the honest instance must be accepted (otherwise the rest is meaningless)
    let honest = Instance { fd, hs, shape: shape.clone(), options: options.clone(), cols: cols.clone(), values: values.clone() };
    let honest_proof = match stark::prove(&honest, false) {
        Proved::Ok(p) => p,
        Proved::Err(e) => {
            st.count("skipped.honest_prove_failed(C01)");
            st.count(&format!("skipped.honest_prove_failed(C01).{}", wfv::report::truncate(&e, 60)));
            return;
        },
        Proved::Panic(pi) => {
            st.count("skipped.honest_prove_failed(C01)");
            st.count(&format!("skipped.honest_prove_failed(C01).panic:{}", wfv::report::truncate(&pi.sig, 80)));
            return;
        },
    };
    if !matches!(stark::verify_proof(fd, hs, &shape, &values, honest_proof.clone(), &acc, false), Ok(Ok(()))) {
        st.count("skipped.honest_proof_rejected(C01)");
        return;
    }
    // (0) the same proof under the caller's acceptance policy: it is accepted exactly when the parameters bound into
    // it satisfy the policy (levels as the library reports them; their values are C18's subject)
    {
        let (lc, lp) = stark::security_levels(fd, hs, &honest_proof);
        let other = winter_air::ProofOptions::new(options.num_queries(), options.blowup_factor(), options.grinding_factor() + 1, options.field_extension(), options.to_fri_options().folding_factor(), options.to_fri_options().remainder_max_degree());
        let policies: Vec<(String, AcceptableOptions, bool)> = vec![
            ("min-conjectured=level".into(), AcceptableOptions::MinConjecturedSecurity(lc), true),
            ("min-conjectured=level+1".into(), AcceptableOptions::MinConjecturedSecurity(lc + 1), false),
            ("min-proven=level".into(), AcceptableOptions::MinProvenSecurity(lp), true),
            ("min-proven=level+1".into(), AcceptableOptions::MinProvenSecurity(lp + 1), false),
            ("option-set-with-the-options".into(), AcceptableOptions::OptionSet(vec![other.clone(), options.clone()]), true),
            ("option-set-without-the-options".into(), AcceptableOptions::OptionSet(vec![other]), false),
        ];
        for (what, pol, want) in policies {
            let r = stark::verify_proof(fd, hs, &shape, &values, honest_proof.clone(), &pol, false);
            let got = matches!(r, Ok(Ok(())));
            if got != want {
                st.violation(format!("policy:{what}:{}", if got { "accepted" } else { "rejected" }), describe(0, 0, "acceptance policy", format!("conjectured level {lc}, proven level {lp}, result {r:?}")));
            }
            st.count("policy.verifications");
            st.evals += 1;
        }
    }
    // (1) every cell (all cells while n*w is small, otherwise boundary cells + a sample)
    let mut cells: Vec<(usize, usize)> = Vec::new();
    if full || n * w <= 160 {
        for c in 0..w {
            for s in 0..n {
                cells.push((c, s));
            }
        }
        st.count("shapes.every_cell_corrupted");
    } else {
        for c in 0..w {
            for s in [0, 1, n - shape.exemptions - 1, n - shape.exemptions, (n - shape.exemptions + 1).min(n - 1), n - 1] {
                cells.push((c, s));
            }
            for a in shape.asserts.iter().filter(|a| a.col == c) {
                for s in a.steps(n).into_iter().take(3) {
                    cells.push((c, s));
                }
            }
            for _ in 0..6 {
                cells.push((c, rng.usize(n)));
            }
        }
        cells.sort();
        cells.dedup();
    }
    for (c, s) in cells {
        let delta = if rng.chance(1, 4) { 1 + rng.u128() % (p - 1) } else { 1 };
        let mut bad = cols.clone();
        bad[c][s] = wfv::refmath::Fp { p }.add(bad[c][s], delta % p);
        let verdict = stark::validity(fd, &shape, &bad, &values);
        // the library's own executable definition of validity (Trace::validate, what the prover runs in debug
        // builds) must draw the same line as the reference predicate
        let lib = stark::library_validate(fd, &shape, &options, &bad, &values);
        if lib.is_ok() != verdict.is_ok() {
            st.violation(
                format!("validity-definitions-disagree:{}", if lib.is_ok() { "Trace::validate-accepts-invalid-trace" } else { "Trace::validate-refuses-valid-trace" }),
                describe(c, s, "Trace::validate and the reference validity predicate disagree", format!("reference: {verdict:?}; Trace::validate: {lib:?}")),
            );
        }
        st.count("validity.cross_checked_with_Trace::validate");
        let inst = Instance { fd, hs, shape: shape.clone(), options: options.clone(), cols: bad, values: values.clone() };
        st.evals += 1;
        st.distinct.insert(wfv::fnv(format!("{fd:?}{hs:?}{i}:{c}:{s}:{delta}").as_bytes()));
        let proof = match stark::prove(&inst, false) {
            Proved::Ok(p) => p,
            Proved::Err(_) | Proved::Panic(_) => {
                if verdict.is_ok() {
                    st.violation("still-valid-trace:prover-failed", describe(c, s, "corruption leaves the trace valid but the prover failed", String::new()));
                } else {
                    st.count("invalid_trace.no_proof_produced");
                }
                continue;
            },
        };
        let r = stark::verify_proof(fd, hs, &shape, &values, proof, &acc, false);
        let classes = step_class(&shape, c, s);
        match (&verdict, r) {
            (Err(why), Ok(Ok(()))) => {
                st.violation(format!("invalid-trace-accepted:{}", classes[0]), describe(c, s, "proof of an invalid trace was accepted", why.clone()));
            },
            (Err(_), Ok(Err(_))) => {
                for k in &classes {
                    st.count(&format!("rejected.{k}"));
                }
            },
            (Ok(()), Ok(Ok(()))) => st.count("still_valid.accepted"),
            (Ok(()), Ok(Err(e))) => st.violation("still-valid-trace-rejected", describe(c, s, "corruption only touches exempt transitions and no asserted cell, yet the proof was rejected", e)),
            (_, Err(pi)) => st.violation(format!("verify-panic:{}", pi.sig), describe(c, s, "verifier panic", pi.msg)),
        }
    }
    // (1b) a prover that corrupts one cell of the auxiliary segment it builds (the main trace and the
    // statement are the honest ones): the cell violates the aux transition constraint of its column
    // on the enforced steps next to it, or the aux assertion at step 0
    if let Some(a) = &shape.aux {
        let e = shape.exemptions;
        let mut cells: Vec<(usize, usize)> = Vec::new();
        for c in 0..a.cols {
            if n * a.cols <= 96 {
                cells.extend((0..n).map(|r| (c, r)));
            } else {
                for r in [0, 1, 2, n / 2, n - e - 1, n - e, (n - e + 1).min(n - 1), n - 1] {
                    cells.push((c, r));
                }
                cells.push((c, rng.usize(n)));
            }
        }
        cells.sort();
        cells.dedup();
        for (c, r) in cells {
            set_aux_corruption(Some((c, r)));
            let proved = stark::prove(&honest, false);
            set_aux_corruption(None);
            // still valid iff both transitions touching the cell are exempt (and it is not step 0)
            let invalid = r <= n - e;
            st.evals += 1;
            let what = format!("aux column {c} (of {}, main constraints {w}) row {r}", a.cols);
            match proved {
                Proved::Ok(p) => match stark::verify_proof(fd, hs, &shape, &values, p, &acc, false) {
                    Ok(Ok(())) if invalid => st.violation(format!("invalid-aux-segment-accepted:{}", if c >= w { "aux-constraint-index>=number-of-main-constraints" } else { "aux-constraint" }), describe(c, r, "auxiliary segment corrupted by the prover", what)),
                    Ok(Ok(())) => st.count("aux.still_valid_accepted"),
                    Ok(Err(e)) if !invalid => st.violation("still-valid-aux-segment-rejected", describe(c, r, &e, what)),
                    Ok(Err(_)) => {
                        st.count("aux.rejected");
                        if c >= w {
                            st.count("aux.rejected_constraint_index_ge_main_constraints");
                        }
                    },
                    Err(pi) => st.violation(format!("verify-panic:{}", pi.sig), describe(c, r, "verifier panic", pi.msg)),
                },
                _ => st.count("aux.no_proof_produced"),
            }
        }
    }
    // (1b') a prover that rescales a whole auxiliary column: all transition constraints still hold,
    // only the boundary assertion on that column is violated
    if let Some(a) = &shape.aux {
        for c in 0..a.cols {
            set_aux_rescaling(Some(c));
            let proved = stark::prove(&honest, false);
            set_aux_rescaling(None);
            st.evals += 1;
            let more_aux_assertions = a.cols > shape.asserts.len();
            match proved {
                Proved::Ok(p) => match stark::verify_proof(fd, hs, &shape, &values, p, &acc, false) {
                    Ok(Ok(())) => st.violation(format!("violated-aux-assertion-accepted:{}", if more_aux_assertions { "more-aux-than-main-assertions" } else { "aux-assertion" }), describe(c, 0, "whole auxiliary column rescaled by the prover", format!("aux column {c} of {}, main assertions {}", a.cols, shape.asserts.len()))),
                    Ok(Err(_)) => {
                        st.count("aux_assertion.rejected");
                        if more_aux_assertions {
                            st.count("aux_assertion.rejected_with_more_aux_than_main_assertions");
                        }
                    },
                    Err(pi) => st.violation(format!("verify-panic:{}", pi.sig), describe(c, 0, "verifier panic", pi.msg)),
                },
                _ => st.count("aux_assertion.no_proof_produced"),
            }
        }
    }
    // (1c) a prover that commits to (and opens) the extension of another main trace than the one it
    // proves: column c of the committed trace differs from the proven one in one cell, everything
    // else in the proof (polynomials, constraint evaluations, out-of-domain frame, DEEP composition)
    // comes from the valid trace. The opened values of every column must be tied to the frame; each
    // query misses the difference with probability <= 1/blowup, so the test needs blowup^q >= 2^40
    if options.num_queries() as u32 * options.blowup_factor().ilog2() >= 40 {
        for c in 0..w {
            let mut committed = cols.clone();
            let s0 = 1 + rng.usize(n - 1);
            committed[c][s0] = wfv::refmath::Fp { p }.add(committed[c][s0], 1);
            set_committed_main_trace(Some(committed));
            let proved = stark::prove(&honest, false);
            set_committed_main_trace(None);
            st.evals += 1;
            let lagr = shape.aux.as_ref().map(|a| a.lagrange).unwrap_or(false);
            match proved {
                Proved::Ok(p) => match stark::verify_proof(fd, hs, &shape, &values, p, &acc, false) {
                    Ok(Ok(())) => st.violation(format!("committed-trace-differs-from-proven-trace-accepted:{}", if lagr { "lagrange-kernel-air" } else { "main-column" }), describe(c, s0, "the prover committed to another column than the one it proved", format!("column {c} of {w}, aux {:?}", shape.aux))),
                    Ok(Err(_)) => {
                        st.count("swap.rejected");
                        if lagr {
                            st.count("swap.rejected_on_lagrange_kernel_air");
                        }
                    },
                    Err(pi) => st.violation(format!("verify-panic:{}", pi.sig), describe(c, s0, "verifier panic", pi.msg)),
                },
                _ => st.count("swap.no_proof_produced"),
            }
        }
    } else {
        st.count("swap.skipped_too_few_queries");
    }
    // (2) the honest proof against perturbed statements
    let mut checked = 0;
    for (ai, v) in values.iter().enumerate() {
        for k in 0..v.len().min(3) {
            let k = if k == 2 { v.len() - 1 } else { k };
            let mut vals = values.clone();
            vals[ai][k] = wfv::refmath::Fp { p }.add(vals[ai][k], 1);
            match stark::verify_proof(fd, hs, &shape, &vals, honest_proof.clone(), &acc, false) {
                Ok(Ok(())) => st.violation("other-public-inputs-accepted:assertion-value", describe(0, 0, "assertion value perturbed on the verifier side", format!("assertion {ai} value {k}"))),
                Ok(Err(_)) => st.count("rejected.perturbed_assertion_value"),
                Err(pi) => st.violation(format!("verify-panic:{}", pi.sig), describe(0, 0, "verifier panic on perturbed public input", pi.msg)),
            }
            checked += 1;
        }
    }
    // perturbed shapes (they travel in the public inputs): exemptions, rule constants, assertion steps
    let mut variants: Vec<(Shape, &str)> = Vec::new();
    let mut s1 = (*shape).clone();
    s1.exemptions = if shape.exemptions > 1 { shape.exemptions - 1 } else { (shape.exemptions + 1).min(shape.max_exemptions()) };
    if s1.exemptions != shape.exemptions {
        variants.push((s1, "exemptions"));
    }
    let mut s2 = (*shape).clone();
    match &mut s2.rules[0] {
        Rule::Pow { a, .. } => *a += 1,
        Rule::MulPer { src, .. } => *src = if src.is_some() { None } else { Some(0) },
    }
    variants.push((s2, "rule-constant"));
    let mut s3 = (*shape).clone();
    if let AKind::Single(st0) = &mut s3.asserts[0].kind {
        *st0 = (*st0 + 1) % n;
    }
    if !s3.asserts.iter().skip(1).any(|a| a.col == s3.asserts[0].col && a.steps(n).contains(&1)) {
        variants.push((s3, "assertion-step"));
    }
    if !shape.periodic.is_empty() {
        let mut s4 = (*shape).clone();
        if let Per::Values(v) = &mut s4.periodic[0] {
            v[0] += 1;
            variants.push((s4, "periodic-value"));
        }
    }
    for (sv, what) in variants {
        let sv = Arc::new(sv);
        match stark::verify_proof(fd, hs, &sv, &values, honest_proof.clone(), &acc, false) {
            Ok(Ok(())) => st.violation(format!("other-statement-accepted:{what}"), describe(0, 0, "honest proof accepted for a different computation description", what.to_string())),
            Ok(Err(_)) => st.count(&format!("rejected.perturbed_{what}")),
            // Air::new of the family asserts on inconsistent descriptions: a refusal, not an acceptance
            Err(_) => st.count(&format!("refused_by_panic_in_air_constructor.{what}")),
        }
        checked += 1;
    }
    // relabelled proofs: the statement data carried in the proof itself (trace metadata, proof
    // options) is edited in the serialized proof; the result is a proof "for" another statement /
    // other parameters and must be rejected (or fail to parse)
    {
        let bytes = honest_proof.to_bytes();
        if let Some(map) = wfv::mutate::map_proof(&bytes, wfv::seeds::digest_size(hs)) {
            let mut edits: Vec<(usize, u8, &str)> = Vec::new();
            if let Some(f) = map.fields.iter().find(|f| f.name == "context.trace_info.meta") {
                for k in 0..f.len {
                    if f.len <= 64 || k + 8 >= f.len || rng.chance(1, 8) {
                        edits.push((f.off + k, 1 << rng.usize(8), "trace-metadata-byte"));
                    }
                }
            }
            for name in ["num_queries", "blowup", "grinding", "fri_folding", "fri_remainder_max_degree"] {
                if let Some(f) = map.fields.iter().find(|f| f.name == format!("context.options.{name}")) {
                    edits.push((f.off, 1, "proof-option"));
                    edits.push((f.off, 2, "proof-option"));
                }
            }
            // the claimed field: the modulus bytes replaced by those of the two other fields (and by the field's own
            // modulus + 1 / - 1); under every acceptance policy, incl. thresholds that only the claimed (larger)
            // field would meet, the proof must be refused
            if let Some(f) = map.fields.iter().find(|f| f.name == "context.field_modulus") {
                let own = stark::modulus(fd);
                let mut claims: Vec<Vec<u8>> = Vec::new();
                for m in [wfv::refmath::P62, wfv::refmath::P64, wfv::refmath::P128, own + 1, own - 1] {
                    if m != own {
                        let nb = if m > u64::MAX as u128 { 16 } else { 8 };
                        claims.push(m.to_le_bytes()[..nb].to_vec());
                    }
                }
                for claim in claims {
                    let mut b = bytes[..f.off - 1].to_vec();
                    b.push(claim.len() as u8);
                    b.extend_from_slice(&claim);
                    b.extend_from_slice(&bytes[f.off + f.len..]);
                    let (lc, _) = stark::security_levels(fd, hs, &honest_proof);
                    for pol in [AcceptableOptions::MinConjecturedSecurity(0), AcceptableOptions::MinConjecturedSecurity(lc + 1), AcceptableOptions::OptionSet(vec![options.clone()])] {
                        match wfv::catch(|| Proof::from_bytes(&b)) {
                            Ok(Ok(p2)) => match stark::verify_proof(fd, hs, &shape, &values, p2, &pol, false) {
                                Ok(Ok(())) => st.violation("relabelled-proof-accepted:claimed-field", describe(0, 0, "field modulus edited inside the proof", format!("claimed modulus bytes {}", wfv::hex(&claim)))),
                                Ok(Err(_)) => st.count("rejected.relabelled_claimed-field"),
                                Err(_) => st.count("relabelled.verifier_panic(see C06)"),
                            },
                            _ => st.count("rejected.relabelled_claimed-field"),
                        }
                        checked += 1;
                    }
                }
            }
            for (off, mask, what) in edits {
                let mut b = bytes.clone();
                b[off] ^= mask;
                match wfv::catch(|| Proof::from_bytes(&b)) {
                    Ok(Ok(p2)) => match stark::verify_proof(fd, hs, &shape, &values, p2, &acc, false) {
                        Ok(Ok(())) => {
                            // every trace column constant and no randomized auxiliary segment: every vector the prover commits
                            // to is constant and nothing in the proof depends on the coin any more, so a relabelled statement
                            // re-draws positions whose opening may have the same shape (the recorded finding of C03, seen from
                            // the statement side); any other accepted relabelling keeps its own signature
                            let constant = shape.aux.is_none() && cols.iter().all(|c| c.iter().all(|x| *x == c[0]));
                            let sig = if constant { "relabelled-proof-accepted:every-trace-column-constant".to_string() } else { format!("relabelled-proof-accepted:{what}") };
                            st.violation(sig, describe(0, 0, "statement data edited inside the proof", format!("{what}: byte {off} ^ {mask:#x}, metadata of {} bytes", shape.meta.len())))
                        },
                        Ok(Err(_)) => st.count(&format!("rejected.relabelled_{what}")),
                        Err(_) => st.count("relabelled.verifier_panic(see C06)"),
                    },
                    _ => st.count(&format!("rejected.relabelled_{what}")),
                }
                checked += 1;
            }
        }
    }
    st.add("perturbed_statements", checked);
    st.count(&format!("shapes.{fd:?}"));
    st.distinct.insert(wfv::fnv(format!("{fd:?}{hs:?}{:?}{i}", shape.encode()).as_bytes()));
    st.sample("shape", || describe(0, 0, "sample", String::new()));
}

fn main() {
    let run = Run::start("C02");
    let full = !run.quick();
    let n = run.size(240, 12_000);
    run.par("shapes", n, |i, rng, st| case(i, rng, st, full));
    let mut require = vec![("shapes.every_cell_corrupted".to_string(), 10), ("still_valid.accepted".to_string(), 20), ("perturbed_statements".to_string(), 100), ("aux.rejected".to_string(), 50), ("aux.rejected_constraint_index_ge_main_constraints".to_string(), 10), ("swap.rejected".to_string(), 30), ("aux_assertion.rejected".to_string(), 30), ("aux_assertion.rejected_with_more_aux_than_main_assertions".to_string(), 5), ("swap.rejected_on_lagrange_kernel_air".to_string(), 5)];
    for k in ["first-step", "last-enforced-row", "row-before-exemption-boundary", "last-step", "asserted-single", "asserted-periodic", "asserted-sequence", "interior", "perturbed_assertion_value", "perturbed_exemptions", "perturbed_rule-constant", "relabelled_trace-metadata-byte", "relabelled_proof-option", "relabelled_claimed-field"] {
        require.push((format!("rejected.{k}"), 5));
    }
    for f in [Fd::F62, Fd::F64, Fd::F128] {
        require.push((format!("shapes.{f:?}"), 5));
    }
    run.finish(Finish {
        rule: "per shape of the C01 family (n = 8..64, 1..7 columns, all 12 field x hasher combinations, three extension degrees): every (column, step) cell (all cells while n*width <= 160 in quick, always in thorough; boundary + asserted + sampled cells otherwise) is corrupted by +1 or a random value and proven with the unchanged public inputs; the reference validity predicate decides the expected verdict (invalid -> rejected, still valid -> accepted); rejections are counted per step class (first step, row before / at / after the exemption boundary, last step, asserted cells per assertion kind, interior); a prover that corrupts one cell of the auxiliary segment (all cells of small segments; shapes with more auxiliary than main constraints forced every sixth case) must be rejected exactly when the cell touches an enforced step; a prover that rescales a whole auxiliary column (only the boundary assertion on it fails; shapes with more auxiliary than main assertions forced) must be rejected; a prover that commits to and opens the extension of another main trace than the one it proves (one column differing in one cell; only when blowup^queries >= 2^40; Lagrange-kernel computations forced every sixth case) must be rejected for every column; then the honest proof is verified against perturbed assertion values and perturbed computation descriptions (exemptions, rule constant, assertion step, periodic value), and the proof itself is relabelled (every byte of its trace metadata - lengths at the element-chunk boundaries -, each proof option) and must then be rejected. distinct = distinct (shape instance, corrupted cell, delta)".into(),
        assumptions: vec![
            "a prover panic/error on an invalid trace counts as 'no proof' (vacuous)".into(),
            "rejection happens at the out-of-domain check with probability >= 1 - deg/|F| >= 1 - 2^-45: treated as deterministic".into(),
            "finite set of corruptions: a clean run is not a soundness proof".into(),
        ],
        exhaustive: false,
        require,
        extra: vec![],
    });
}
