//! C16 Constraints are enforced on exactly the intended steps: step-set semantics decided by
//! enumeration over the whole trace domain for every exemption count, every assertion and every
//! ordered pair of assertions valid for trace lengths 8..256.
use winter_air::{
    AirContext, Assertion, BoundaryConstraints, ConstraintDivisor, FieldExtension, ProofOptions, TraceInfo,
    TransitionConstraintDegree, TransitionConstraints,
};
use winter_math::{
    fields::{f128, f62, f64},
    FieldElement, StarkField,
};
use wfv::{catch, fields::Fld, gen::*, Finish, Rng, Run, State, J};

#[derive(Clone, Debug)]
struct Spec {
    kind: &'static str,
    first: usize,
    stride: usize,
    count: usize, // number of values handed to the constructor
}

impl Spec {
    fn steps(&self, n: usize) -> Vec<usize> {
        match self.kind {
            "single" => vec![self.first],
            "periodic" => (0..n / self.stride).map(|k| self.first + k * self.stride).collect(),
            _ => (0..self.count).map(|k| self.first + k * self.stride).collect(),
        }
    }
    fn mask(&self, n: usize) -> [u64; 16] {
        let mut m = [0u64; 16];
        for s in self.steps(n) {
            m[s / 64] |= 1 << (s % 64);
        }
        m
    }
    fn build<B: Fld>(&self, col: usize, values: &[B]) -> Assertion<B> {
        match self.kind {
            "single" => Assertion::single(col, self.first, values[0]),
            "periodic" => Assertion::periodic(col, self.first, self.stride, values[0]),
            _ => Assertion::sequence(col, self.first, self.stride, values.to_vec()),
        }
    }
    fn json(&self) -> J {
        J::obj(vec![("kind", J::s(self.kind)), ("first_step", J::i(self.first)), ("stride", J::i(self.stride)), ("values", J::i(self.count))])
    }
}

/// every assertion that is valid for trace length n
fn all_specs(n: usize) -> Vec<Spec> {
    let mut v = Vec::new();
    for s in 0..n {
        v.push(Spec { kind: "single", first: s, stride: 0, count: 1 });
    }
    let mut stride = 2;
    while stride <= n {
        for first in 0..stride {
            v.push(Spec { kind: "periodic", first, stride, count: 1 });
            // a sequence must cover the trace: count * stride == n (count = 1 degenerates to a single)
            v.push(Spec { kind: "sequence", first, stride, count: n / stride });
        }
        stride *= 2;
    }
    v
}

fn options() -> ProofOptions {
    ProofOptions::new(8, 8, 0, FieldExtension::None, 4, 7)
}

fn context<B: Fld>(n: usize, width: usize, num_assertions: usize) -> AirContext<B> {
    AirContext::new(TraceInfo::new(width, n), vec![TransitionConstraintDegree::new(2)], num_assertions, options())
}

/// zero set semantics of a divisor at x: numerator vanishes and no exemption cancels it
fn vanishes<B: Fld>(d: &ConstraintDivisor<B>, x: B) -> bool {
    let num = d.numerator().iter().fold(B::ONE, |acc, (deg, c)| acc * (x.exp_vartime(B::pi(*deg as u128)) - *c));
    num == B::ZERO && d.evaluate_exemptions_at(x) != B::ZERO
}

fn domain<B: Fld>(n: usize) -> Vec<B> {
    let g = B::get_root_of_unity(n.ilog2());
    let mut v = vec![B::ONE; n];
    for i in 1..n {
        v[i] = v[i - 1] * g;
    }
    v
}

fn vfail<B: Fld>(st: &mut State, what: &str, n: usize, detail: J) {
    st.violation(format!("{}:{}", B::NAME, what), J::obj(vec![("field", J::s(B::NAME)), ("trace_length", J::i(n)), ("check", J::s(what)), ("detail", detail)]));
}

fn transition<B: Fld>(run: &Run, n: usize) {
    let dom = domain::<B>(n);
    run.par(&format!("{}-transition-{n}", B::NAME), (n / 2 + 3) as u64, |e, rng, st| {
        let e = e as usize; // 0 ..= n/2+2
        let built = catch(|| context::<B>(n, 2, 1).set_num_transition_exemptions(e));
        let legal = e >= 1 && e <= n / 2 + 1;
        st.evals += 1;
        match (built, legal) {
            (Err(_), false) => {
                st.count("transition.illegal_exemption_count_refused");
            },
            (Ok(_), false) => vfail::<B>(st, "transition:illegal-exemptions-accepted", n, J::i(e)),
            (Err(p), true) => vfail::<B>(st, "transition:legal-exemptions-refused", n, J::obj(vec![("exemptions", J::i(e)), ("panic", J::s(p.msg))])),
            (Ok(ctx), true) => {
                let tc = TransitionConstraints::<B>::new(&ctx, &[B::ONE]);
                let d = tc.divisor().clone();
                let d2 = ConstraintDivisor::<B>::from_transition(n, e);
                if d != d2 || ctx.num_transition_exemptions() != e {
                    vfail::<B>(st, "transition:context-divisor", n, J::i(e));
                }
                for (s, x) in dom.iter().enumerate() {
                    let enforced = s < n - e;
                    if vanishes(&d, *x) != enforced {
                        vfail::<B>(st, "transition:zero-set", n, J::obj(vec![("exemptions", J::i(e)), ("step", J::i(s)), ("should_be_enforced", J::B(enforced))]));
                    }
                }
                // explicit product at out-of-domain points
                for _ in 0..3 {
                    let x = rand_nonzero::<B, B>(rng) * B::GENERATOR;
                    let prod = (0..n - e).fold(B::ONE, |acc, s| acc * (x - dom[s]));
                    if d.evaluate_at(x) != prod {
                        vfail::<B>(st, "transition:ood-product", n, J::i(e));
                    }
                }
                if d.degree() != n - e {
                    vfail::<B>(st, "transition:degree", n, J::i(e));
                }
                st.case(wfv::fnv(format!("{}t{n}e{e}", B::NAME).as_bytes()), true);
                st.add("transition.domain_points_checked", n as u64);
                st.count("transition.exemption_counts");
                st.sample("transition", || J::obj(vec![("field", J::s(B::NAME)), ("trace_length", J::i(n)), ("exemptions", J::i(e))]));
            },
        }
    });
}

fn assertions<B: Fld>(run: &Run, n: usize) {
    let dom = domain::<B>(n);
    let specs = all_specs(n);
    run.par(&format!("{}-assertions-{n}", B::NAME), specs.len() as u64, |i, rng, st| {
        let sp = &specs[i as usize];
        let steps = sp.steps(n);
        // distinct non-zero values so that a value landing on the wrong step is visible
        let values: Vec<B> = (0..sp.count).map(|k| B::from((1000 + 7 * k) as u32) + rand_el::<B, B>(rng)).collect();
        let col = rng.usize(3);
        let a = match catch(|| sp.build::<B>(col, &values)) {
            Ok(a) => a,
            Err(p) => {
                vfail::<B>(st, "assertion:well-formed-refused", n, J::obj(vec![("assertion", sp.json()), ("panic", J::s(p.msg))]));
                return;
            },
        };
        if a.validate_trace_length(n).is_err() || a.validate_trace_width(3).is_err() || a.validate_trace_width(col).is_ok() {
            vfail::<B>(st, "assertion:validate", n, sp.json());
            return;
        }
        // apply() names exactly the intended cells with the intended values
        let mut named: Vec<(usize, B)> = Vec::new();
        a.apply(n, |s, v| named.push((s, v)));
        let want: Vec<(usize, B)> = steps.iter().enumerate().map(|(k, s)| (*s, values[if sp.kind == "sequence" { k } else { 0 }])).collect();
        if named != want || a.get_num_steps(n) != steps.len() {
            vfail::<B>(st, "assertion:apply", n, sp.json());
        }
        // divisor zero set
        let d = ConstraintDivisor::<B>::from_assertion(&a, n);
        let mask = sp.mask(n);
        for (s, x) in dom.iter().enumerate() {
            let named = (mask[s / 64] >> (s % 64)) & 1 == 1;
            if vanishes(&d, *x) != named {
                vfail::<B>(st, "assertion:divisor-zero-set", n, J::obj(vec![("assertion", sp.json()), ("step", J::i(s)), ("named", J::B(named))]));
                break;
            }
        }
        let x = rand_nonzero::<B, B>(rng) * B::GENERATOR;
        let prod = steps.iter().fold(B::ONE, |acc, s| acc * (x - dom[*s]));
        if d.evaluate_at(x) != prod || d.degree() != steps.len() || !d.exemptions().is_empty() {
            vfail::<B>(st, "assertion:divisor-ood-product", n, sp.json());
        }
        // boundary constraint built by the system: same divisor, value polynomial reproduces values
        let ctx = context::<B>(n, 3, 1);
        let bc = BoundaryConstraints::<B>::new(&ctx, vec![a.clone()], vec![], &[B::ONE]);
        let groups = bc.main_constraints();
        if groups.len() != 1 || groups[0].constraints().len() != 1 || groups[0].divisor() != &d || groups[0].constraints()[0].column() != col {
            vfail::<B>(st, "boundary:grouping", n, sp.json());
        } else {
            let c = &groups[0].constraints()[0];
            for (s, v) in &want {
                if c.evaluate_at(dom[*s], *v) != B::ZERO || c.evaluate_at(dom[*s], *v + B::ONE) == B::ZERO {
                    vfail::<B>(st, "boundary:value-polynomial", n, J::obj(vec![("assertion", sp.json()), ("step", J::i(*s))]));
                    break;
                }
            }
        }
        st.case(wfv::fnv(format!("{}a{n}{:?}", B::NAME, sp).as_bytes()), true);
        st.count(&format!("assertions.{}", sp.kind));
        if sp.kind == "sequence" && sp.first != 0 && sp.count >= 64 {
            st.count("assertions.sequence_ge64_nonzero_first");
        }
        st.add("assertions.domain_points_checked", n as u64);
        st.sample(sp.kind, || J::obj(vec![("field", J::s(B::NAME)), ("trace_length", J::i(n)), ("assertion", sp.json())]));
    });
}

fn pairs<B: Fld>(run: &Run, n: usize) {
    let specs = all_specs(n);
    let built: Vec<(Assertion<B>, [u64; 16])> = specs
        .iter()
        .map(|sp| {
            let values: Vec<B> = (0..sp.count).map(|k| B::from(k as u32 + 1)).collect();
            (sp.build::<B>(0, &values), sp.mask(n))
        })
        .collect();
    run.par(&format!("{}-pairs-{n}", B::NAME), specs.len() as u64, |i, rng, st| {
        let (a, ma) = &built[i as usize];
        for (j, (b, mb)) in built.iter().enumerate() {
            let common = (0..16).any(|k| ma[k] & mb[k] != 0);
            if a.overlaps_with(b) != common {
                vfail::<B>(st, "overlaps_with", n, J::obj(vec![("a", specs[i as usize].json()), ("b", specs[j].json()), ("share_a_cell", J::B(common))]));
            }
        }
        // different columns never overlap
        let osp = &specs[rng.usize(specs.len())];
        let other = osp.build::<B>(1, &vec![B::ONE; osp.count]);
        if a.overlaps_with(&other) || other.overlaps_with(a) {
            vfail::<B>(st, "overlaps_with:different-columns", n, osp.json());
        }
        st.evals += built.len() as u64;
        st.add("pairs.checked", built.len() as u64);
        st.distinct.insert(wfv::fnv(format!("{}p{n}:{i}", B::NAME).as_bytes()));
        // the system's own overlap screening agrees (sampled: a panic per overlapping pair is slow)
        if i % 16 == 0 {
            let j = rng.usize(built.len());
            let (b, mb) = &built[j];
            let common = (0..16).any(|k| ma[k] & mb[k] != 0);
            let ctx = context::<B>(n, 1, 2);
            let r = catch(|| BoundaryConstraints::<B>::new(&ctx, vec![a.clone(), b.clone()], vec![], &[B::ONE, B::ONE]));
            // identical assertions are deduplicated by the sorted set before the count check; skip them
            if i as usize != j && r.is_err() != common {
                vfail::<B>(st, "prepare_assertions:overlap-screening", n, J::obj(vec![("a", specs[i as usize].json()), ("b", specs[j].json()), ("share_a_cell", J::B(common))]));
            }
            st.count("pairs.system_screening");
        }
    });
}

/// sets of assertions handed to the system together: every assertion must come back as exactly one
/// boundary constraint whose group divisor vanishes on exactly the steps the assertion names and
/// whose value polynomial reproduces its values (grouping must not lend an assertion another
/// assertion's divisor)
fn sets<B: Fld>(run: &Run, n: usize) {
    let dom = domain::<B>(n);
    let specs = all_specs(n);
    let exhaustive_pairs = n <= 16;
    let cases = if exhaustive_pairs { (specs.len() * specs.len()) as u64 } else { run.size(1500, 40_000) };
    run.par(&format!("{}-sets-{n}", B::NAME), cases, |i, rng, st| {
        let mut picks: Vec<(usize, usize)> = if exhaustive_pairs {
            vec![((i as usize) / specs.len(), 0), ((i as usize) % specs.len(), rng.usize(2))]
        } else {
            let k = rng.range(2, 7);
            (0..k).map(|_| (rng.usize(specs.len()), rng.usize(3))).collect()
        };
        // every second large case: force assertions that share a first step but differ in stride
        if !exhaustive_pairs && i % 2 == 0 {
            let first = specs[picks[0].0].first;
            let same: Vec<usize> = (0..specs.len()).filter(|&j| specs[j].first == first).collect();
            for (t, p) in picks.iter_mut().enumerate().skip(1) {
                *p = (same[rng.usize(same.len())], t % 3);
            }
        }
        // keep a non-overlapping subset
        let mut kept: Vec<(usize, usize, [u64; 16])> = Vec::new();
        for (j, col) in picks.drain(..) {
            let m = specs[j].mask(n);
            if kept.iter().all(|(_, c, km)| *c != col || (0..16).all(|k| km[k] & m[k] == 0)) {
                kept.push((j, col, m));
            }
        }
        let vals: Vec<Vec<B>> = kept.iter().enumerate().map(|(t, (j, _, _))| (0..specs[*j].count).map(|k| B::from((100_000 * (t + 1) + k + 1) as u32)).collect()).collect();
        let asserts: Vec<Assertion<B>> = kept.iter().zip(&vals).map(|((j, col, _), v)| specs[*j].build::<B>(*col, v)).collect();
        let describe = || J::A(kept.iter().map(|(j, col, _)| J::obj(vec![("column", J::i(*col)), ("assertion", specs[*j].json())])).collect());
        let ctx = context::<B>(n, 3, asserts.len());
        let coeffs = vec![B::ONE; asserts.len()];
        let bc = match catch(|| BoundaryConstraints::<B>::new(&ctx, asserts.clone(), vec![], &coeffs)) {
            Ok(b) => b,
            Err(p) => {
                vfail::<B>(st, "boundary-set:well-formed-set-refused", n, J::obj(vec![("assertions", describe()), ("panic", J::s(p.msg))]));
                return;
            },
        };
        let mut matched = vec![false; kept.len()];
        let mut total = 0;
        for g in bc.main_constraints() {
            let mut roots = [0u64; 16];
            for (s, x) in dom.iter().enumerate() {
                if vanishes(g.divisor(), *x) {
                    roots[s / 64] |= 1 << (s % 64);
                }
            }
            for c in g.constraints() {
                total += 1;
                let hit = (0..kept.len()).find(|&t| {
                    let (j, col, m) = &kept[t];
                    !matched[t]
                        && *col == c.column()
                        && *m == roots
                        && specs[*j].steps(n).iter().enumerate().all(|(k, s)| c.evaluate_at(dom[*s], vals[t][if specs[*j].kind == "sequence" { k } else { 0 }]) == B::ZERO)
                });
                match hit {
                    Some(t) => matched[t] = true,
                    None => {
                        let r: Vec<usize> = (0..n).filter(|s| (roots[s / 64] >> (s % 64)) & 1 == 1).take(12).collect();
                        vfail::<B>(st, "boundary-set:constraint-divisor-names-other-steps-than-its-assertion", n, J::obj(vec![("assertions", describe()), ("constraint_column", J::i(c.column())), ("divisor_roots_first_12", J::s(format!("{r:?}")))]));
                        return;
                    },
                }
            }
        }
        if total != kept.len() || matched.iter().any(|m| !m) {
            vfail::<B>(st, "boundary-set:assertion-without-constraint", n, describe());
        }
        st.evals += kept.len() as u64;
        st.add("sets.assertions_matched", kept.len() as u64);
        st.count(&format!("sets.size_{}", kept.len().min(4)));
        let strides: std::collections::BTreeSet<usize> = kept.iter().map(|(j, _, _)| specs[*j].stride).collect();
        let firsts: std::collections::BTreeSet<usize> = kept.iter().map(|(j, _, _)| specs[*j].first).collect();
        if strides.len() > 1 && firsts.len() < kept.len() {
            st.count("sets.same_first_step_different_stride");
        }
        st.distinct.insert(wfv::fnv(format!("{}s{n}:{i}", B::NAME).as_bytes()));
    });
}

fn ill_formed<B: Fld>(run: &Run) {
    run.seq(&format!("{}-illformed", B::NAME), 1, |_, _, st| {
        let v = B::ONE;
        let mut refused = 0u64;
        let mut expect_panic = |name: &str, r: Result<Assertion<B>, wfv::report::PanicInfo>, st: &mut State| {
            if r.is_ok() {
                vfail::<B>(st, "ill-formed-accepted", 0, J::s(name));
            } else {
                refused += 1;
            }
        };
        for stride in [0usize, 1, 3, 5, 6, 7, 12, 24, 100] {
            expect_panic(&format!("periodic stride {stride}"), catch(|| Assertion::periodic(0, 0, stride, v)), st);
            expect_panic(&format!("sequence stride {stride}"), catch(|| Assertion::sequence(0, 0, stride, vec![v, v])), st);
        }
        for (first, stride) in [(2usize, 2usize), (3, 2), (4, 4), (8, 8), (17, 16)] {
            expect_panic("periodic first>=stride", catch(|| Assertion::periodic(0, first, stride, v)), st);
            expect_panic("sequence first>=stride", catch(|| Assertion::sequence(0, first, stride, vec![v, v])), st);
        }
        expect_panic("sequence empty", catch(|| Assertion::sequence(0, 0, 4, vec![])), st);
        for cnt in [3usize, 5, 6, 7, 9, 12] {
            expect_panic("sequence count not power of two", catch(|| Assertion::sequence(0, 0, 4, vec![v; cnt])), st);
        }
        // trace-length / width validation
        let mut check = |ok: bool, what: &str, st: &mut State| {
            if !ok {
                vfail::<B>(st, "validate-ill-formed", 0, J::s(what));
            } else {
                refused += 1;
            }
        };
        check(Assertion::single(0, 16, v).validate_trace_length(16).is_err(), "single step == length", st);
        check(Assertion::single(0, 15, v).validate_trace_length(16).is_ok(), "single last step", st);
        check(Assertion::single(0, 3, v).validate_trace_length(12).is_err(), "length not power of two", st);
        check(Assertion::periodic(0, 0, 32, v).validate_trace_length(16).is_err(), "periodic stride > length", st);
        check(Assertion::periodic(0, 5, 16, v).validate_trace_length(16).is_ok(), "periodic stride == length", st);
        check(Assertion::sequence(0, 0, 4, vec![v; 4]).validate_trace_length(32).is_err(), "sequence too short", st);
        check(Assertion::sequence(0, 0, 4, vec![v; 4]).validate_trace_length(8).is_err(), "sequence too long", st);
        check(Assertion::sequence(0, 1, 4, vec![v; 4]).validate_trace_length(16).is_ok(), "sequence exact", st);
        check(Assertion::single(3, 0, v).validate_trace_width(3).is_err(), "column == width", st);
        check(Assertion::single(2, 0, v).validate_trace_width(3).is_ok(), "column < width", st);
        st.add("illformed.cases", refused);
        st.evals += refused;
    });
}

fn drive<B: Fld>(run: &Run, lengths: &[usize]) {
    ill_formed::<B>(run);
    for &n in lengths {
        transition::<B>(run, n);
        assertions::<B>(run, n);
        pairs::<B>(run, n);
        sets::<B>(run, n);
    }
}

fn main() {
    let run = Run::start("C16");
    let lengths: Vec<usize> = if run.quick() { vec![8, 16, 32, 64, 128, 256] } else { vec![8, 16, 32, 64, 128, 256, 512, 1024] };
    drive::<f64::BaseElement>(&run, &lengths);
    drive::<f62::BaseElement>(&run, &lengths);
    drive::<f128::BaseElement>(&run, &lengths);
    let _ = Rng::new(0);
    run.finish(Finish {
        rule: format!("exhaustive enumeration at run time for trace lengths {lengths:?} and three base fields: every exemption count 0..n/2+2 (0 and n/2+2 must be refused) with the transition divisor's zero set decided on every domain point and against the explicit product at out-of-domain points; every well-formed single/periodic/sequence assertion (all first steps, strides, value counts): apply(), divisor zero set on every domain point, explicit product, system-built boundary constraint reproduces each asserted value and rejects value+1; every ordered pair of assertions on one column: overlaps_with == step sets intersect; sets of 2..6 non-overlapping assertions over 3 columns handed to BoundaryConstraints::new together (all ordered pairs for n <= 16, sampled sets above, half of them forced to share a first step across different strides): every assertion comes back as exactly one constraint whose group divisor vanishes on exactly its steps and whose value polynomial reproduces its values; ill-formed constructor arguments refused. distinct = distinct (field, length, exemption count | assertion | pair row)"),
        assumptions: vec!["zero set of a divisor is read as numerator(x)=0 and exemptions(x)!=0 (0/0 through evaluate_at would be an artefact)".into(), "field operations as monitored by C07".into()],
        exhaustive: true,
        require: vec![
            ("transition.exemption_counts".into(), 3 * 4),
            ("transition.illegal_exemption_count_refused".into(), 6),
            ("assertions.single".into(), 24),
            ("assertions.periodic".into(), 24),
            ("assertions.sequence".into(), 24),
            ("assertions.sequence_ge64_nonzero_first".into(), 1),
            ("pairs.checked".into(), 1000),
            ("pairs.system_screening".into(), 10),
            ("sets.assertions_matched".into(), 1000),
            ("sets.same_first_step_different_stride".into(), 100),
            ("sets.size_4".into(), 50),
            ("illformed.cases".into(), 30),
        ],
        extra: vec![("trace_lengths".into(), J::A(lengths.iter().map(|x| J::i(*x)).collect()))],
    });
}
