//! C08 Extension fields: every operation of the quadratic and cubic extensions is compared with
//! schoolbook polynomial arithmetic modulo the documented irreducible (reference arithmetic),
//! with boundary base coefficients (also as internal images) in every position, plus the algebraic
//! laws (conjugation is an automorphism fixing exactly the base field, inverses, embedding).
use winter_math::{
    fields::{f128, f62, f64, CubeExtension, QuadExtension},

};

use wfv::{
    fields::{boundary_elements, ext_from_res, ext_res, res_of_raw, ExtEl, Fld},
    Finish, Rng, Run, State, J,
};

fn show<const N: usize>(r: [u128; N]) -> J {
    J::A(r.iter().map(|x| J::s(x.to_string())).collect())
}

fn name<B: Fld, const N: usize>() -> String {
    format!("{}^{}", B::NAME, N)
}

fn check<B: Fld, E: ExtEl<B, N>, const N: usize>(st: &mut State, op: &str, inputs: &[[u128; N]], got: E, want: [u128; N]) -> bool {
    let nm = name::<B, N>();
    let bad = |kind: &str, st: &mut State| {
        st.violation(
            format!("{nm}:{op}:{kind}"),
            J::obj(vec![
                ("field", J::s(&nm)),
                ("op", J::s(op)),
                ("inputs_internal_images", J::A(inputs.iter().map(|x| show(*x)).collect())),
                ("got", show(ext_res::<B, E, N>(&got))),
                ("got_internal", show(got.coeffs().map(|c| c.raw()))),
                ("want", show(want)),
            ]),
        )
    };
    if ext_res::<B, E, N>(&got) != want {
        bad("value", st);
        return false;
    }
    let mut ok = true;
    if got.coeffs().iter().any(|c| c.raw() >= B::RAW_LIMIT) {
        bad("rep-range", st);
        ok = false;
    }
    let canon: E = ext_from_res::<B, E, N>(want);
    if !(got == canon) || !(canon == got) {
        bad("eq", st);
        ok = false;
    }
    let mut bytes = Vec::new();
    for w in want {
        bytes.extend_from_slice(&w.to_le_bytes()[..B::ELEMENT_BYTES]);
    }
    if got.to_bytes() != bytes {
        bad("bytes", st);
        ok = false;
    }
    ok
}

#[derive(Clone, Copy)]
struct Reg<E, const N: usize> {
    e: E,
    r: [u128; N],
}

fn mk<B: Fld, E: ExtEl<B, N>, const N: usize>(c: [B; N]) -> Reg<E, N> {
    Reg { e: E::from_coeffs(c), r: c.map(|x| res_of_raw::<B>(x.raw())) }
}

fn coeff<B: Fld>(rng: &mut Rng, bnd: &[B]) -> B {
    match rng.below(6) {
        0 | 1 => *rng.pick(bnd),
        2 => B::from_raw(rng.u128() % B::RAW_LIMIT),
        3 => {
            let b = rng.pick(bnd).raw();
            let d = rng.below(4) as u128;
            B::from_raw((if rng.bool() { b.saturating_sub(d) } else { b + d }) % B::RAW_LIMIT)
        },
        4 => [B::ZERO, B::ONE, -B::ONE][rng.usize(3)],
        _ => B::from_res(rng.u128() % B::FP.p),
    }
}

fn operand<B: Fld, E: ExtEl<B, N>, const N: usize>(rng: &mut Rng, bnd: &[B]) -> Reg<E, N> {
    let mut c = [B::ZERO; N];
    for x in c.iter_mut() {
        *x = coeff(rng, bnd);
    }
    mk::<B, E, N>(c)
}

const BIN: [&str; 8] = ["add", "sub", "mul", "div", "add_assign", "sub_assign", "mul_assign", "div_assign"];

fn bin_check<B: Fld, E: ExtEl<B, N>, const N: usize>(st: &mut State, a: Reg<E, N>, b: Reg<E, N>, binv: Option<[u128; N]>) {
    let x = E::ref_ext();
    let ins = [a.e.coeffs().map(|c| c.raw()), b.e.coeffs().map(|c| c.raw())];
    for op in BIN {
        let got = match op {
            "add" => a.e + b.e,
            "sub" => a.e - b.e,
            "mul" => a.e * b.e,
            "div" => a.e / b.e,
            "add_assign" => {
                let mut t = a.e;
                t += b.e;
                t
            },
            "sub_assign" => {
                let mut t = a.e;
                t -= b.e;
                t
            },
            "mul_assign" => {
                let mut t = a.e;
                t *= b.e;
                t
            },
            _ => {
                let mut t = a.e;
                t /= b.e;
                t
            },
        };
        let want = match op {
            "add" | "add_assign" => x.add(a.r, b.r),
            "sub" | "sub_assign" => x.sub(a.r, b.r),
            "mul" | "mul_assign" => x.mul(a.r, b.r),
            _ => x.mul(a.r, binv.unwrap_or_else(|| x.inv(b.r))),
        };
        check::<B, E, N>(st, op, &ins, got, want);
        st.evals += 1;
    }
    // relations
    if (a.e == b.e) != (a.r == b.r) {
        st.violation(format!("{}:eq-relation", name::<B, N>()), J::A(vec![show(ins[0]), show(ins[1])]));
    }
}

fn unary_check<B: Fld, E: ExtEl<B, N>, const N: usize>(st: &mut State, a: Reg<E, N>, rng: &mut Rng, heavy: bool) {
    let x = E::ref_ext();
    let f = B::FP;
    let ins = [a.e.coeffs().map(|c| c.raw())];
    check::<B, E, N>(st, "neg", &ins, -a.e, x.neg(a.r));
    check::<B, E, N>(st, "double", &ins, a.e.double(), x.add(a.r, a.r));
    check::<B, E, N>(st, "square", &ins, a.e.square(), x.mul(a.r, a.r));
    check::<B, E, N>(st, "cube", &ins, a.e.cube(), x.mul(a.r, x.mul(a.r, a.r)));
    st.evals += 4;
    // multiplication by a base element
    let bcoef = if rng.bool() { B::from_raw(rng.u128() % B::RAW_LIMIT) } else { B::from_res(*rng.pick(&wfv::fields::boundary_ints(B::FP.p)) % B::FP.p) };
    let br = res_of_raw::<B>(bcoef.raw());
    check::<B, E, N>(st, "mul_base", &ins, a.e.mul_base(bcoef), x.mul_base(a.r, br));
    // embedding
    let emb = E::from(bcoef);
    let mut er = [0u128; N];
    er[0] = br;
    check::<B, E, N>(st, "from_base", &ins, emb, er);
    check::<B, E, N>(st, "embed-mul", &ins, a.e * emb, x.mul_base(a.r, br));
    st.evals += 3;
    // serialization round trip
    match E::read_from_bytes(&a.e.to_bytes()) {
        Ok(back) => {
            check::<B, E, N>(st, "roundtrip", &ins, back, a.r);
        },
        Err(_) => st.violation(format!("{}:roundtrip:error", name::<B, N>()), show(ins[0])),
    }
    if heavy {
        let inv_ref = x.inv(a.r);
        let inv = a.e.inv();
        check::<B, E, N>(st, "inv", &ins, inv, inv_ref);
        if a.r != [0; N] {
            check::<B, E, N>(st, "inv-law", &ins, a.e * inv, x.one());
            st.count(&format!("{}.nonzero_inverses", name::<B, N>()));
        }
        let conj_ref = x.frob(a.r);
        let conj = a.e.conjugate();
        check::<B, E, N>(st, "conjugate", &ins, conj, conj_ref);
        // conjugation fixes exactly the base field
        let in_base = a.r[1..].iter().all(|c| *c == 0);
        if (conj == a.e) != in_base {
            st.violation(format!("{}:conjugate:fixed-field", name::<B, N>()), show(ins[0]));
        }
        // conj^N = id
        let mut c = a.e;
        for _ in 0..N {
            c = c.conjugate();
        }
        check::<B, E, N>(st, "conjugate-order", &ins, c, a.r);
        // exponentiation (exponent type is the base field's integer)
        let e = match rng.below(4) {
            0 => rng.below(9) as u128,
            1 => f.p,
            2 => f.p - 1,
            _ => rng.u128() >> rng.below(100),
        };
        let e = if B::MODULUS_BITS <= 64 { e & (u64::MAX as u128) } else { e };
        check::<B, E, N>(st, "exp", &[ins[0]], a.e.exp(B::pi(e)), x.pow(a.r, e));
        st.evals += 6;
        st.count(&format!("{}.heavy_unary", name::<B, N>()));
    }
}

fn laws<B: Fld, E: ExtEl<B, N>, const N: usize>(st: &mut State, a: Reg<E, N>, b: Reg<E, N>) {
    let nm = name::<B, N>();
    let ins = J::A(vec![show(a.e.coeffs().map(|c| c.raw())), show(b.e.coeffs().map(|c| c.raw()))]);
    if (a.e * b.e).conjugate() != a.e.conjugate() * b.e.conjugate() {
        st.violation(format!("{nm}:law:conj-mul"), ins.clone());
    }
    if (a.e + b.e).conjugate() != a.e.conjugate() + b.e.conjugate() {
        st.violation(format!("{nm}:law:conj-add"), ins.clone());
    }
    // embedding is a ring homomorphism
    let (x, y) = (a.e.coeffs()[0], b.e.coeffs()[N - 1]);
    if E::from(x) + E::from(y) != E::from(x + y) || E::from(x) * E::from(y) != E::from(x * y) || E::from(B::ONE) != E::ONE || E::from(B::ZERO) != E::ZERO {
        st.violation(format!("{nm}:law:embedding"), ins.clone());
    }
    if a.e.square() != a.e * a.e {
        st.violation(format!("{nm}:law:square"), ins);
    }
    st.evals += 4;
}

fn slices<B: Fld, E: ExtEl<B, N>, const N: usize>(st: &mut State, rng: &mut Rng, bnd: &[B]) {
    let nm = name::<B, N>();
    let len = rng.range(0, 9);
    let v: Vec<E> = (0..len).map(|_| operand::<B, E, N>(rng, bnd).e).collect();
    let flat = E::slice_as_base_elements(&v);
    let mut ok = flat.len() == len * N && (len == 0 || flat.as_ptr() as usize == v.as_ptr() as usize);
    for (i, e) in v.iter().enumerate() {
        for (j, c) in e.coeffs().iter().enumerate() {
            ok &= flat[i * N + j].raw() == c.raw();
        }
    }
    let back = E::slice_from_base_elements(flat);
    ok &= back.len() == len && back.iter().zip(v.iter()).all(|(x, y)| x.coeffs().map(|c| c.raw()) == y.coeffs().map(|c| c.raw()));
    ok &= len == 0 || back.as_ptr() == v.as_ptr();
    let bytes = E::elements_as_bytes(&v);
    ok &= bytes.len() == len * N * B::ELEMENT_BYTES && E::ELEMENT_BYTES == N * B::ELEMENT_BYTES;
    match unsafe { E::bytes_as_elements(bytes) } {
        Ok(b2) => ok &= b2.len() == len && b2.iter().zip(v.iter()).all(|(x, y)| x.coeffs().map(|c| c.raw()) == y.coeffs().map(|c| c.raw())),
        Err(_) => ok = false,
    }
    // from a plain base vector too
    let base: Vec<B> = (0..len * N).map(|_| coeff(rng, bnd)).collect();
    let as_ext = E::slice_from_base_elements(&base);
    for (i, e) in as_ext.iter().enumerate() {
        for (j, c) in e.coeffs().iter().enumerate() {
            ok &= base[i * N + j].raw() == c.raw();
        }
    }
    if !ok {
        st.violation(format!("{nm}:slice-reinterpretation"), J::i(len));
    }
    st.evals += 1;
    st.count(&format!("{nm}.slice_cases"));
}


/// conversions of extension elements: coefficient access, integer embeddings, canonical byte encodings (accepted
/// exactly when every coefficient is canonical), wrong lengths, misaligned / ragged byte slices, Display
fn conversions<B: Fld, E: ExtEl<B, N>, const N: usize>(st: &mut State, rng: &mut Rng, bnd: &[B])
where
    E: From<u8> + From<u16> + From<u32> + for<'a> TryFrom<&'a [u8]> + winter_utils::Randomizable + std::fmt::Display,
{
    let nm = name::<B, N>();
    let bad = |what: &str, st: &mut State| st.violation(format!("{nm}:conversion:{what}"), J::s(what));
    let a = operand::<B, E, N>(rng, bnd);
    let c = a.e.coeffs();
    // base_element(i) is the i-th coefficient; to_base_elements lists them
    for i in 0..N {
        if a.e.base_element(i).raw() != c[i].raw() {
            bad("base_element", st);
        }
    }
    // integer embeddings land in the constant coefficient
    let v = rng.u32();
    for (e, want) in [(E::from(v), v as u128 % B::FP.p), (E::from(v as u16), v as u16 as u128), (E::from(v as u8), v as u8 as u128)] {
        let k = e.coeffs();
        if k[0].res() != want || k[1..].iter().any(|x| x.res() != 0) || e != E::from(B::from_res(want)) {
            bad("from-integer", st);
        }
    }
    // canonical encodings: N little-endian coefficients, each below the modulus
    let nb = B::ELEMENT_BYTES;
    let mut ints: Vec<u128> = (0..N).map(|i| c[i].res()).collect();
    let limit = if nb == 8 { u64::MAX as u128 } else { u128::MAX };
    let tweak = rng.usize(N + 1);
    if tweak < N {
        // one coefficient at / above the modulus (or just below it)
        ints[tweak] = *rng.pick(&[B::FP.p - 1, B::FP.p, B::FP.p + 1, limit, limit - 1]) & limit;
    }
    let mut bytes = Vec::new();
    for x in &ints {
        bytes.extend_from_slice(&x.to_le_bytes()[..nb]);
    }
    let canonical = ints.iter().all(|x| *x < B::FP.p);
    let same = |e: &E| e.coeffs().iter().zip(&ints).all(|(k, w)| k.res() == *w);
    match E::try_from(bytes.as_slice()) {
        Ok(e) if canonical && same(&e) => {},
        Err(_) if !canonical => {},
        _ => bad("try_from_bytes:accept-set", st),
    }
    match E::from_random_bytes(&bytes) {
        Some(e) if canonical && same(&e) => {},
        None if !canonical => {},
        _ => bad("from_random_bytes:accept-set", st),
    }
    match E::read_from_bytes(&bytes) {
        Ok(e) if canonical && same(&e) => {},
        Err(_) if !canonical => {},
        _ => bad("read_from:accept-set", st),
    }
    for l in [0usize, 1, nb, N * nb - 1, N * nb + 1, 2 * N * nb] {
        if l != N * nb && E::try_from(&vec![0u8; l][..]).is_ok() {
            bad("try_from_bytes:length", st);
        }
    }
    // reinterpretation of byte slices refuses ragged lengths and misaligned starts instead of misbehaving
    let store: Vec<u128> = vec![0; 2 * N + 2];
    let raw = unsafe { core::slice::from_raw_parts(store.as_ptr() as *const u8, store.len() * 16) };
    if unsafe { E::bytes_as_elements(&raw[..N * nb + 1]) }.is_ok() {
        bad("bytes_as_elements:ragged-length-accepted", st);
    }
    if unsafe { E::bytes_as_elements(&raw[1..1 + N * nb]) }.is_ok() {
        bad("bytes_as_elements:misaligned-accepted", st);
    }
    match unsafe { E::bytes_as_elements(&raw[..2 * N * nb]) } {
        Ok(z) if z.len() == 2 && z.iter().all(|e| *e == E::ZERO) => {},
        _ => bad("bytes_as_elements:aligned-zeros", st),
    }
    // Display lists the coefficients' residues
    let shown = format!("{}", a.e);
    let want = format!("({})", c.iter().map(|k| k.res().to_string()).collect::<Vec<_>>().join(", "));
    if shown != want {
        bad("display", st);
    }
    st.evals += 1;
    st.count(&format!("{nm}.conversion_cases"));
}

fn drive<B: Fld, E: ExtEl<B, N>, const N: usize>(run: &Run, scale: u64)
where
    E: From<u8> + From<u16> + From<u32> + for<'a> TryFrom<&'a [u8]> + winter_utils::Randomizable + std::fmt::Display,
{
    let nm = name::<B, N>();
    if !E::supported() {
        run.seq(&format!("{nm}-unsupported"), 1, |_, _, st| {
            st.count(&format!("{nm}.unsupported"));
            st.evals += 1;
        });
        return;
    }
    let bnd = boundary_elements::<B>();
    let x = E::ref_ext();
    if std::env::var("VERIF_STAGE").as_deref() == Ok("miri") {
        run.par(&format!("{nm}-miri"), 40, |i, rng, st| {
            let a = operand::<B, E, N>(rng, &bnd);
            let b = operand::<B, E, N>(rng, &bnd);
            bin_check::<B, E, N>(st, a, b, None);
            slices::<B, E, N>(st, rng, &bnd);
            conversions::<B, E, N>(st, rng, &bnd);
            st.case(wfv::fnv(format!("{nm}miri{i}").as_bytes()), true);
        });
        return;
    }
    // (1) boundary value in every position of a and of b (others random), all pairs of positions
    let nb = bnd.len();
    let stride = if run.quick() { 5 } else { 1 };
    let rows: Vec<usize> = (0..nb).step_by(stride).collect();
    run.par(&format!("{nm}-positions"), (rows.len() * N) as u64, |i, rng, st| {
        let (ai, pa) = (rows[i as usize / N], i as usize % N);
        for bi in 0..nb {
            for pb in 0..N {
                let mut a = operand::<B, E, N>(rng, &bnd).e.coeffs();
                let mut b = operand::<B, E, N>(rng, &bnd).e.coeffs();
                a[pa] = bnd[ai];
                b[pb] = bnd[bi];
                let (a, b) = (mk::<B, E, N>(a), mk::<B, E, N>(b));
                // division only on a sample (reference inversion is the expensive part)
                let x_ = E::ref_ext();
                let binv = if (bi + pb) % 16 == 0 { Some(x_.inv(b.r)) } else { None };
                if binv.is_some() {
                    bin_check::<B, E, N>(st, a, b, binv);
                } else {
                    // without div
                    let ins = [a.e.coeffs().map(|c| c.raw()), b.e.coeffs().map(|c| c.raw())];
                    check::<B, E, N>(st, "add", &ins, a.e + b.e, x.add(a.r, b.r));
                    check::<B, E, N>(st, "sub", &ins, a.e - b.e, x.sub(a.r, b.r));
                    check::<B, E, N>(st, "mul", &ins, a.e * b.e, x.mul(a.r, b.r));
                    st.evals += 3;
                }
                st.distinct.insert(wfv::fnv(format!("{nm}{:?}{:?}", a.r, b.r).as_bytes()));
            }
        }
        st.add(&format!("{nm}.position_pairs"), (nb * N) as u64);
        let a = operand::<B, E, N>(rng, &bnd);
        unary_check::<B, E, N>(st, a, rng, true);
    });
    // (1b) multiplication by a base element: every boundary element of the base field as the multiplier
    run.par(&format!("{nm}-mul-base"), nb as u64, |i, rng, st| {
        let bcoef = bnd[i as usize];
        let br = res_of_raw::<B>(bcoef.raw());
        for _ in 0..6 {
            let a = operand::<B, E, N>(rng, &bnd);
            let ins = [a.e.coeffs().map(|c| c.raw()), [bcoef.raw(); N]];
            check::<B, E, N>(st, "mul_base", &ins, a.e.mul_base(bcoef), x.mul_base(a.r, br));
            check::<B, E, N>(st, "embed-mul", &ins, a.e * E::from(bcoef), x.mul_base(a.r, br));
            st.evals += 2;
        }
        st.count(&format!("{nm}.mul_base_boundary_multipliers"));
    });
    // (2) random / boundary mixes with all operations and laws
    run.par(&format!("{nm}-random"), scale, |i, rng, st| {
        let a = operand::<B, E, N>(rng, &bnd);
        let b = operand::<B, E, N>(rng, &bnd);
        bin_check::<B, E, N>(st, a, b, None);
        unary_check::<B, E, N>(st, a, rng, i % 4 == 0);
        laws::<B, E, N>(st, a, b);
        if i % 8 == 0 {
            slices::<B, E, N>(st, rng, &bnd);
        }
        if i % 4 == 1 {
            conversions::<B, E, N>(st, rng, &bnd);
        }
        st.case(wfv::fnv(format!("{nm}{:?}{:?}", a.r, b.r).as_bytes()), true);
        st.count(&format!("{nm}.random_pairs"));
        st.sample(&nm, || J::obj(vec![("ext", J::s(&nm)), ("a", show(a.r)), ("b", show(b.r)), ("a_internal", show(a.e.coeffs().map(|c| c.raw())))]));
    });
}

fn main() {
    let run = Run::start("C08");
    let n = run.size(150_000, 6_000_000);
    drive::<f64::BaseElement, QuadExtension<f64::BaseElement>, 2>(&run, n);
    drive::<f64::BaseElement, CubeExtension<f64::BaseElement>, 3>(&run, n);
    drive::<f62::BaseElement, QuadExtension<f62::BaseElement>, 2>(&run, n);
    drive::<f62::BaseElement, CubeExtension<f62::BaseElement>, 3>(&run, n);
    drive::<f128::BaseElement, QuadExtension<f128::BaseElement>, 2>(&run, n / 20);
    drive::<f128::BaseElement, CubeExtension<f128::BaseElement>, 3>(&run, 1);
    let mut require = vec![("f128^3.unsupported".to_string(), 1)];
    for e in ["f64^2", "f64^3", "f62^2", "f62^3", "f128^2"] {
        require.push((format!("{e}.position_pairs"), 1000));
        require.push((format!("{e}.random_pairs"), 1000));
        require.push((format!("{e}.nonzero_inverses"), 100));
        require.push((format!("{e}.slice_cases"), 100));
        require.push((format!("{e}.conversion_cases"), 100));
        require.push((format!("{e}.mul_base_boundary_multipliers"), 50));
    }
    run.finish(Finish {
        rule: "operands: each coefficient position takes every boundary element of the base field (boundary integers as residues and as internal images) against every (position, boundary) of the other operand, remaining coefficients random/boundary; plus random pairs. Per pair: add/sub/mul/div (+assign forms) vs schoolbook product reduced by the documented irreducible; per operand: neg,double,square,cube,mul_base (multipliers: every boundary element of the base field, boundary integers, random),from(base),inv,conjugate(=x^p),exp, byte round trip, slice reinterpretation, conversions (base_element, integer embeddings, canonical encodings accepted exactly when every coefficient is below the modulus, wrong lengths, ragged / misaligned byte slices refused, Display); laws: conj multiplicative/additive/fixes exactly the base field/order N, a*inv(a)=1, embedding homomorphism. distinct = distinct operand pair (by residues)".into(),
        assumptions: vec![
            "reference: schoolbook polynomial arithmetic over the u128 reference field; Frobenius as x^p; inverse via the norm".into(),
            "irreducibles as documented: f64 x^2-x+2, x^3-x-1; f62 x^2-x-1, x^3+2x+2; f128 x^2-x-1".into(),
        ],
        exhaustive: false,
        require,
        extra: vec![],
    });
}
