//! C05 FRI soundness: a library of prover strategies against the stand-alone FRI verifier for
//! functions that are far from the claimed degree bound. Every strategy commits honestly to each
//! folded layer; the oracle is "rejected" (acceptance is only tolerated when an independent
//! recomputation shows that all queried positions happen to be consistent).
use winter_crypto::{
    hashers::{Blake3_192, Blake3_256, Rp62_248, Rp64_256, RpJive64_256, Sha3_256},
    DefaultRandomCoin, ElementHasher, Hasher, RandomCoin,
};
use winter_fri::{folding, DefaultProverChannel, FriOptions, FriProof, FriProver, ProverChannel};
use winter_math::{
    fields::{f128, f62, f64, CubeExtension, QuadExtension},
    polynom, FieldElement, StarkField,
};
use winter_utils::{transpose_slice, Deserializable, Serializable};
use wfv::{catch, fields::Fld, frih, gen::*, Finish, Rng, Run, State, J};

#[derive(Clone, Debug)]
struct Cfg {
    blowup: usize,
    fold: usize,
    rem: usize,
    log_n: usize,
    queries: usize,
}

fn gen_cfg(rng: &mut Rng) -> Option<Cfg> {
    let blowup = 1usize << rng.range(1, 5);
    let fold = 1usize << rng.range(1, 4);
    let rem = (1usize << rng.range(0, 6)) - 1;
    let log_n = rng.range(2, 9);
    let domain = (1usize << log_n) * blowup;
    if domain < 16 || domain > (1 << 12) || !frih::schedule_well_formed(domain, &FriOptions::new(blowup, fold, rem)) {
        return None;
    }
    // enough queries that an honest-folding prover of a far function survives with probability
    // <= max(1/blowup, 3/4)^q <= 2^-40 ... (for blowup 2: q >= 40; the 3/4 case needs q >= 97)
    let queries = 100.min(domain - 1).max(1);
    Some(Cfg { blowup, fold, rem, log_n, queries })
}

/// a function over the domain that is far from degree < n
fn far_function<B: Fld, E: FieldElement<BaseField = B>>(rng: &mut Rng, n: usize, domain: usize) -> (Vec<E>, String) {
    match rng.below(5) {
        0 => (rand_vec::<B, E>(rng, domain), "random-function".into()),
        1 => {
            // degree exactly bound + 1 (one coefficient too many)
            let mut p = rand_vec::<B, E>(rng, n + 1);
            p[n] = rand_nonzero::<B, E>(rng);
            (frih::evaluate::<B, E>(&p, domain), "degree-bound+1".into())
        },
        2 => {
            let d = rng.range(n + 1, domain - 1);
            let mut p = rand_vec::<B, E>(rng, d + 1);
            p[d] = rand_nonzero::<B, E>(rng);
            (frih::evaluate::<B, E>(&p, domain), "degree-in-(bound+1..domain-1)".into())
        },
        3 => {
            let p = rand_vec::<B, E>(rng, domain);
            (frih::evaluate::<B, E>(&p, domain), "degree-domain-1".into())
        },
        _ => {
            // low-degree polynomial corrupted on a fraction of the domain
            let p = rand_vec::<B, E>(rng, n);
            let mut ev = frih::evaluate::<B, E>(&p, domain);
            let (num, den) = *rng.pick(&[(1usize, 4usize), (1, 2), (3, 4)]);
            let mut idx: Vec<usize> = (0..domain).collect();
            rng.shuffle(&mut idx);
            for &i in idx.iter().take(domain * num / den) {
                ev[i] += rand_nonzero::<B, E>(rng);
            }
            (ev, format!("low-degree-corrupted-{num}/{den}"))
        },
    }
}

/// replaces the remainder inside a serialized FriProof (layout: .. | u16 len | remainder | u8 partitions)
fn with_remainder<E: FieldElement>(proof: &FriProof, new_rem: &[E]) -> Option<FriProof> {
    let bytes = proof.to_bytes();
    let old_len = proof.num_remainder_elements::<E>() * E::ELEMENT_BYTES;
    let tail = 1 + old_len + 2;
    if bytes.len() < tail {
        return None;
    }
    let head = &bytes[..bytes.len() - tail];
    let mut out = head.to_vec();
    let mut rb = Vec::new();
    for e in new_rem {
        e.write_into(&mut rb);
    }
    out.extend_from_slice(&(rb.len() as u16).to_le_bytes());
    out.extend_from_slice(&rb);
    out.push(bytes[bytes.len() - 1]);
    FriProof::read_from_bytes(&out).ok()
}

/// splits the serialized proof into its layers: Vec<(values, paths)>, remainder bytes, partitions
fn split_layers(bytes: &[u8]) -> Option<(Vec<(Vec<u8>, Vec<u8>)>, Vec<u8>, u8)> {
    let mut p = 0usize;
    let n = *bytes.get(p)? as usize;
    p += 1;
    let mut layers = Vec::new();
    for _ in 0..n {
        let vl = u32::from_le_bytes(bytes.get(p..p + 4)?.try_into().ok()?) as usize;
        p += 4;
        let v = bytes.get(p..p + vl)?.to_vec();
        p += vl;
        let pl = u32::from_le_bytes(bytes.get(p..p + 4)?.try_into().ok()?) as usize;
        p += 4;
        let pa = bytes.get(p..p + pl)?.to_vec();
        p += pl;
        layers.push((v, pa));
    }
    let rl = u16::from_le_bytes(bytes.get(p..p + 2)?.try_into().ok()?) as usize;
    p += 2;
    let rem = bytes.get(p..p + rl)?.to_vec();
    p += rl;
    let parts = *bytes.get(p)?;
    Some((layers, rem, parts))
}
fn join_layers(layers: &[(Vec<u8>, Vec<u8>)], rem: &[u8], parts: u8) -> Vec<u8> {
    let mut out = vec![layers.len() as u8];
    for (v, p) in layers {
        out.extend_from_slice(&(v.len() as u32).to_le_bytes());
        out.extend_from_slice(v);
        out.extend_from_slice(&(p.len() as u32).to_le_bytes());
        out.extend_from_slice(p);
    }
    out.extend_from_slice(&(rem.len() as u16).to_le_bytes());
    out.extend_from_slice(rem);
    out.push(parts);
    out
}

/// prover channel that hands the prover a wrong folding challenge at one layer
struct WrongAlpha<E: FieldElement, H: ElementHasher<BaseField = E::BaseField>> {
    inner: DefaultProverChannel<E, H, DefaultRandomCoin<H>>,
    break_at: usize,
    drawn: usize,
}
impl<E: FieldElement, H: ElementHasher<BaseField = E::BaseField>> ProverChannel<E> for WrongAlpha<E, H> {
    type Hasher = H;
    fn commit_fri_layer(&mut self, root: H::Digest) {
        self.inner.commit_fri_layer(root)
    }
    fn draw_fri_alpha(&mut self) -> E {
        let a: E = self.inner.draw_fri_alpha();
        self.drawn += 1;
        if self.drawn - 1 == self.break_at {
            a + E::ONE
        } else {
            a
        }
    }
}

/// the committed last layer and the folding challenges, recomputed from the commitments
fn last_layer<B: Fld, E: FieldElement<BaseField = B>, H: ElementHasher<BaseField = B>>(f: &[E], commitments: &[H::Digest], fold: usize, layers: usize) -> Vec<E> {
    let mut coin = DefaultRandomCoin::<H>::new(&[]);
    let mut cur = f.to_vec();
    for c in commitments.iter().take(layers) {
        coin.reseed(*c);
        let alpha: E = coin.draw().unwrap();
        cur = match fold {
            2 => folding::apply_drp(&transpose_slice::<E, 2>(&cur), B::GENERATOR, alpha),
            4 => folding::apply_drp(&transpose_slice::<E, 4>(&cur), B::GENERATOR, alpha),
            8 => folding::apply_drp(&transpose_slice::<E, 8>(&cur), B::GENERATOR, alpha),
            _ => folding::apply_drp(&transpose_slice::<E, 16>(&cur), B::GENERATOR, alpha),
        };
    }
    cur
}

fn final_positions(positions: &[usize], mut domain: usize, fold: usize, layers: usize) -> Vec<usize> {
    let mut p = positions.to_vec();
    for _ in 0..layers {
        p = folding::fold_positions(&p, domain, fold);
        domain /= fold;
    }
    p
}

fn case<B: Fld, E: FieldElement<BaseField = B>, H: ElementHasher<BaseField = B>>(rng: &mut Rng, st: &mut State, i: u64, tag: &str) {
    let Some(c) = gen_cfg(rng) else { return };
    let n = 1usize << c.log_n;
    let domain = n * c.blowup;
    let opts = FriOptions::new(c.blowup, c.fold, c.rem);
    let layers = opts.num_fri_layers(domain);
    let last_domain = domain / c.fold.pow(layers as u32);
    let rem_size = last_domain / c.blowup;
    let (f, fkind) = far_function::<B, E>(rng, n, domain);
    let strategy = ["honest-folding", "remainder-after-queries", "remainder-plus-vanishing", "tampered-layer-value", "wrong-alpha", "omitted-layer", "swapped-layers", "wrong-degree-claim", "oversized-remainder", "claimed-evaluation-mismatch", "partitioned-layout", "rows-made-up-after-the-queries", "stretched-remainder"][(i % 13) as usize];
    let desc = |extra: &str| {
        J::obj(vec![("config", J::s(tag)), ("strategy", J::s(strategy)), ("function", J::s(&fkind)), ("blowup", J::i(c.blowup)), ("folding", J::i(c.fold)), ("remainder_max_degree", J::i(c.rem)), ("degree_bound", J::i(n - 1)), ("domain", J::i(domain)), ("queries", J::i(c.queries)), ("layers", J::i(layers)), ("detail", J::s(extra))])
    };
    let mut prover = FriProver::<B, E, frih::Chan<E, H>, H>::new(opts.clone());
    let verdict = |st: &mut State, what: &str, proof: FriProof, comm: Vec<H::Digest>, fvals: &[E], pos: &[usize], max_degree: usize, legit_if_lucky: Option<bool>| {
        let queried: Vec<E> = pos.iter().map(|&p| fvals[p]).collect();
        st.evals += 1;
        match catch(|| frih::verify::<B, E, H>(proof, comm, &queried, pos, max_degree, domain, &opts)) {
            Ok(Err(e)) => {
                let kind: String = e.split(':').nth(1).unwrap_or("").trim().chars().filter(|c| !c.is_ascii_digit()).take(44).collect();
                st.count(&format!("rejected.{strategy}"));
                st.count(&format!("reject_reason.{}", kind.replace(' ', "_")));
            },
            Ok(Ok(())) => match legit_if_lucky {
                Some(true) => st.count("accepted.legitimately_lucky_queries"),
                _ => st.violation(format!("far-function-accepted:{strategy}"), desc(what)),
            },
            Err(p) => st.violation(format!("verifier-panic:{strategy}:{}", p.sig), desc(&p.msg)),
        }
    };
    match strategy {
        "honest-folding" | "wrong-degree-claim" => {
            // for the degree claim: a genuine polynomial of degree bound verified against a smaller bound
            let (fvals, max_degree) = if strategy == "wrong-degree-claim" {
                let mut p = rand_vec::<B, E>(rng, n);
                p[n - 1] = rand_nonzero::<B, E>(rng);
                let claims = [n / 2 - 1, n - 2, n / 2, (n - 1).saturating_sub(c.fold)];
                (frih::evaluate::<B, E>(&p, domain), claims[rng.usize(claims.len())])
            } else {
                (f.clone(), n - 1)
            };
            let inst = frih::prove::<B, E, H>(&mut prover, fvals.clone(), &opts, c.queries, None);
            // independent recomputation of the acceptance condition for honest folding
            let lucky = if strategy == "honest-folding" {
                let ll = last_layer::<B, E, H>(&fvals, &inst.commitments, c.fold, layers);
                let rem: Vec<E> = inst.proof.parse_remainder().unwrap_or_default();
                let g = B::get_root_of_unity(last_domain.ilog2());
                let fin = final_positions(&inst.positions, domain, c.fold, layers);
                Some(fin.iter().all(|&p| p_eval::<E, E>(&rem, E::from(B::GENERATOR * g.exp_vartime(B::pi(p as u128)))) == ll[p]) && rem.len() <= rem_size)
            } else {
                None
            };
            if lucky == Some(false) {
                st.count("oracle.recomputed_rejection_required");
            }
            verdict(st, "", inst.proof, inst.commitments, &fvals, &inst.positions, max_degree, lucky);
        },
        "remainder-after-queries" | "remainder-plus-vanishing" | "oversized-remainder" => {
            let nq = if strategy == "remainder-plus-vanishing" { (rem_size.saturating_sub(1) / 2).max(1) } else { c.queries.min(rem_size.max(1)) };
            let inst = frih::prove::<B, E, H>(&mut prover, f.clone(), &opts, nq, None);
            let ll = last_layer::<B, E, H>(&f, &inst.commitments, c.fold, layers);
            let fin = final_positions(&inst.positions, domain, c.fold, layers);
            let g = B::get_root_of_unity(last_domain.ilog2());
            let xs: Vec<E> = fin.iter().map(|&p| E::from(B::GENERATOR * g.exp_vartime(B::pi(p as u128)))).collect();
            let ys: Vec<E> = fin.iter().map(|&p| ll[p]).collect();
            let honest_rem: Vec<E> = inst.proof.parse_remainder().unwrap_or_default();
            let new_rem: Vec<E> = if strategy == "remainder-after-queries" {
                if fin.len() > rem_size {
                    st.count("skipped.more_final_positions_than_remainder_coefficients");
                    return;
                }
                // interpolate through the queried points of the committed last layer
                let mut r = polynom::interpolate(&xs, &ys, false);
                r.resize(rem_size.max(1), E::ZERO);
                r
            } else if strategy == "remainder-plus-vanishing" {
                // honest remainder + c * prod (x - x_q): same values on the queried points
                if fin.len() + 1 > rem_size {
                    st.count("skipped.no_room_for_vanishing_multiple");
                    return;
                }
                let z = polynom::poly_from_roots(&xs);
                let cc = rand_nonzero::<B, E>(rng);
                let mut r = honest_rem.clone();
                r.resize(rem_size, E::ZERO);
                for (k, zc) in z.iter().enumerate() {
                    r[k] += cc * *zc;
                }
                r
            } else {
                // a remainder with twice as many coefficients as the degree bound leaves room for
                let mut r = polynom::interpolate(&xs, &ys, false);
                r.resize((2 * rem_size).max(2), E::ZERO);
                let last = r.len() - 1;
                r[last] = E::ZERO;
                // keep the values on the queried points: add c * z(x) * x^k is not needed, the
                // interpolant already agrees; the size alone must be refused
                r
            };
            if new_rem == honest_rem {
                st.count("skipped.substituted_remainder_equals_committed");
                return;
            }
            let Some(proof) = with_remainder::<E>(&inst.proof, &new_rem) else {
                st.count("skipped.remainder_not_encodable");
                return;
            };
            verdict(st, "remainder substituted after the query positions were known", proof, inst.commitments, &f, &inst.positions, n - 1, None);
        },
        "stretched-remainder" => {
            // committed before the queries: a function that folds (honestly, with the true coordinates) into the
            // values of a small polynomial R over the first half of a domain of TWICE the size of the last layer,
            // and the remainder R zero-padded to twice the regular length. Every layer and the remainder commitment
            // are honest; only the comparison of the last layer with the remainder, evaluated at the points of the
            // real last domain, refuses it (position 0 agrees, every other one differs)
            if layers == 0 || rem_size < 2 || 2 * rem_size > 256 {
                st.count("skipped.no_layers");
                return;
            }
            frih::STRETCHED_REMAINDER.with(|c| c.set(true));
            let g0 = frih::unfolded_function::<B, E>(rng, domain, &opts, 0, frih::RowCoord::DomainPosition, rem_size);
            let pos: Vec<usize> = (0..c.queries).map(|_| rng.usize(domain)).collect();
            let mp = g0.as_ref().and_then(|g0| frih::manual_prove::<B, E, H>(g0, &opts, &pos, 0, frih::RowCoord::DomainPosition));
            frih::STRETCHED_REMAINDER.with(|c| c.set(false));
            let (Some(g0), Some(mp)) = (g0, mp) else {
                st.count("skipped.stretched_remainder_not_constructible");
                return;
            };
            // the oracle is an independent recomputation of the acceptance condition: the last layer refolded with
            // the coin's challenges against the sent remainder evaluated at the points of the real last domain (they
            // agree at position 0 only, unless the small polynomial happens to be constant)
            let fin = final_positions(&pos, domain, c.fold, layers);
            let ll = last_layer::<B, E, H>(&g0, &mp.commitments, c.fold, layers);
            let rem: Vec<E> = mp.proof.parse_remainder().unwrap_or_default();
            let gl = B::get_root_of_unity(last_domain.ilog2());
            let lucky = fin.iter().all(|&p| p_eval::<E, E>(&rem, E::from(B::GENERATOR * gl.exp_vartime(B::pi(p as u128)))) == ll[p]);
            if lucky {
                st.count("stretched.consistent_by_construction(constant polynomial or position 0 only)");
            }
            verdict(st, "remainder zero-padded to twice its length, last layer = its values over half of the doubled domain", mp.proof, mp.commitments, &g0, &pos, n - 1, Some(lucky));
        },
        "rows-made-up-after-the-queries" => {
            // the honest proof of a genuine low-degree polynomial, with the opened rows of the first
            // layer rewritten after the positions are known so that they carry the far function's
            // values at the queried positions and still fold to the same values: every algebraic check
            // passes, only the Merkle opening of the first layer binds the rows. Sent with the
            // partition field 0 (plain) or 16 (every leaf index collapses to 0)
            if layers == 0 {
                st.count("skipped.no_layers");
                return;
            }
            let g = frih::evaluate::<B, E>(&rand_vec::<B, E>(rng, n), domain);
            // few positions, so that every opened row keeps an unqueried entry
            let mut pos: Vec<usize> = Vec::new();
            for _ in 0..rng.range(2, 12) {
                let p = rng.usize(domain);
                let r = p % (domain / c.fold);
                let in_row = pos.iter().filter(|q| *q % (domain / c.fold) == r).count();
                if !pos.contains(&p) && in_row + 1 < c.fold {
                    pos.push(p);
                }
            }
            if pos.is_empty() || pos.iter().all(|&p| f[p] == g[p]) {
                st.count("skipped.nothing_to_forge");
                return;
            }
            let parts_byte = if rng.bool() { 0u8 } else { 16 };
            let Some(m) = frih::forged_first_layer::<B, E, H>(&g, &f, &opts, &pos, parts_byte) else {
                st.count("skipped.forgery_not_constructible");
                return;
            };
            st.count(&format!("forged_rows.partition_byte_{parts_byte}"));
            verdict(st, "first-layer rows rewritten after the queries were known", m.proof, m.commitments, &f, &pos, n - 1, None);
        },
        "partitioned-layout" => {
            // a hand-written prover that commits every layer in the layout with 2^k partitions (the
            // partition count travels in the proof and is the prover's choice). (a) honest folding of
            // the far function; (b) a function built to be consistent for a verifier that takes the
            // LEAF INDEX of a row for its position in the folded domain: N^L random small polynomials
            // on the last domain, unfolded L times with the coordinates offset*g^index(r), folded by the
            // prover with those coordinates; with respect to the true coordinates it is far from low
            // degree (checked by interpolation), so it must be rejected
            if layers == 0 {
                st.count("skipped.no_layers");
                return;
            }
            let max_log = last_domain.ilog2().min(3) as usize;
            if max_log == 0 {
                st.count("skipped.no_room_for_partitions");
                return;
            }
            let log_parts = rng.range(1, max_log) as u8;
            let pos: Vec<usize> = (0..c.queries).map(|_| rng.usize(domain)).collect();
            let (fvals, coord, what) = if rng.bool() {
                (f.clone(), frih::RowCoord::DomainPosition, "honest folding in the partitioned layout")
            } else {
                let Some(g0) = frih::unfolded_function::<B, E>(rng, domain, &opts, log_parts, frih::RowCoord::LeafIndex, rem_size.max(1)) else {
                    st.count("skipped.no_room_for_partitions");
                    return;
                };
                // far from the bound with respect to the true coordinates?
                let mut co = g0.clone();
                let tw = winter_math::fft::get_inv_twiddles::<B>(domain);
                winter_math::fft::interpolate_poly_with_offset(&mut co, &tw, B::GENERATOR);
                if polynom::degree_of(&co) <= n - 1 {
                    st.count("skipped.unfolded_function_happens_to_be_low_degree");
                    return;
                }
                (g0, frih::RowCoord::LeafIndex, "rows folded with the coordinate of their leaf index")
            };
            let Some(m) = frih::manual_prove::<B, E, H>(&fvals, &opts, &pos, log_parts, coord) else {
                st.count("skipped.no_room_for_partitions");
                return;
            };
            st.count(&format!("partitioned.{}", if coord == frih::RowCoord::LeafIndex { "leaf_index_confusion" } else { "honest_folding" }));
            verdict(st, what, m.proof, m.commitments, &fvals, &pos, n - 1, None);
        },
        "claimed-evaluation-mismatch" => {
            // an honest proof (for the far function or for a genuine low-degree polynomial), but the
            // evaluations handed to the verifier differ from the committed first layer at one or more
            // queried positions; positions are chosen so that several of them fall into the same
            // coset (row of the first layer), the altered one listed first, in the middle or last
            let fvals = if rng.bool() { f.clone() } else { frih::evaluate::<B, E>(&rand_vec::<B, E>(rng, n), domain) };
            let rows = domain / c.fold;
            let mut pos: Vec<usize> = Vec::new();
            let groups = rng.range(1, 8.min(rows));
            for _ in 0..groups {
                let r = rng.usize(rows);
                let mut members: Vec<usize> = (0..c.fold).map(|k| r + k * rows).collect();
                rng.shuffle(&mut members);
                members.truncate(rng.range(2, c.fold).min(c.fold));
                for m in members {
                    if !pos.contains(&m) {
                        pos.push(m);
                    }
                }
            }
            let inst = frih::prove::<B, E, H>(&mut prover, fvals.clone(), &opts, pos.len(), Some(pos.clone()));
            let mut claimed = fvals.clone();
            let which = match rng.below(4) {
                0 => 0,
                1 => pos.len() - 1,
                2 => 1.min(pos.len() - 1),
                _ => rng.usize(pos.len()),
            };
            claimed[pos[which]] += rand_nonzero::<B, E>(rng);
            if rng.chance(1, 3) {
                // every position but the first of the list
                for &p in pos.iter().skip(1) {
                    claimed[p] += E::ONE;
                }
            }
            // the two alterations can cancel (+(-1) then +1 on the same position)
            if pos.iter().all(|&p| claimed[p] == fvals[p]) {
                st.count("skipped.claimed_evaluations_equal_the_committed_ones");
                return;
            }
            st.count(&format!("claimed_mismatch.altered_index_{}", if which == 0 { "first" } else if which == pos.len() - 1 { "last" } else { "middle" }));
            verdict(st, "claimed evaluation differs from the committed first layer", inst.proof, inst.commitments, &claimed, &pos, n - 1, None);
        },
        "tampered-layer-value" | "omitted-layer" | "swapped-layers" => {
            let inst = frih::prove::<B, E, H>(&mut prover, f.clone(), &opts, c.queries, None);
            let bytes = inst.proof.to_bytes();
            let Some((mut ls, rem, parts)) = split_layers(&bytes) else {
                st.violation("harness:cannot-split-proof", desc(""));
                return;
            };
            let mut comm = inst.commitments.clone();
            match strategy {
                "tampered-layer-value" => {
                    if ls.is_empty() {
                        st.count("skipped.no_layers");
                        return;
                    }
                    let k = rng.usize(ls.len());
                    let eb = E::ELEMENT_BYTES;
                    let slot = rng.usize(ls[k].0.len() / eb);
                    let mut e = E::read_from_bytes(&ls[k].0[slot * eb..(slot + 1) * eb]).unwrap();
                    e += E::ONE;
                    ls[k].0[slot * eb..(slot + 1) * eb].copy_from_slice(&e.to_bytes());
                },
                "omitted-layer" => {
                    if ls.is_empty() {
                        st.count("skipped.no_layers");
                        return;
                    }
                    let k = rng.usize(ls.len());
                    ls.remove(k);
                    if rng.bool() {
                        comm.remove(k);
                    }
                },
                _ => {
                    if ls.len() < 2 {
                        st.count("skipped.fewer_than_two_layers");
                        return;
                    }
                    let k = rng.usize(ls.len() - 1);
                    ls.swap(k, k + 1);
                    if rng.bool() {
                        comm.swap(k, k + 1);
                    }
                },
            }
            match FriProof::read_from_bytes(&join_layers(&ls, &rem, parts)) {
                Ok(proof) => verdict(st, "", proof, comm, &f, &inst.positions, n - 1, None),
                Err(_) => st.count("rejected.at_parse"),
            }
        },
        _ => {
            // wrong alpha at one layer (also for genuinely low-degree functions)
            if layers == 0 {
                st.count("skipped.no_layers");
                return;
            }
            let fvals = if rng.bool() { f.clone() } else { frih::evaluate::<B, E>(&rand_vec::<B, E>(rng, n), domain) };
            let mut ch = WrongAlpha::<E, H> { inner: DefaultProverChannel::new(domain, c.queries), break_at: rng.usize(layers), drawn: 0 };
            let mut p2 = FriProver::<B, E, WrongAlpha<E, H>, H>::new(opts.clone());
            p2.build_layers(&mut ch, fvals.clone());
            let pos = ch.inner.draw_query_positions(0);
            let proof = p2.build_proof(&pos);
            let comm = ch.inner.layer_commitments().to_vec();
            // the strategy only deviates if alpha + 1 folds the broken layer differently from alpha
            // (it does not when the coefficient slices 1..N-1 of that layer vanish, e.g. a constant)
            let deviates = {
                let mut coin = DefaultRandomCoin::<H>::new(&[]);
                let mut cur = fvals.clone();
                let mut differs = false;
                let fold_with = |cur: &[E], a: E| match c.fold {
                    2 => folding::apply_drp(&transpose_slice::<E, 2>(cur), B::GENERATOR, a),
                    4 => folding::apply_drp(&transpose_slice::<E, 4>(cur), B::GENERATOR, a),
                    8 => folding::apply_drp(&transpose_slice::<E, 8>(cur), B::GENERATOR, a),
                    _ => folding::apply_drp(&transpose_slice::<E, 16>(cur), B::GENERATOR, a),
                };
                for (k, cm) in comm.iter().take(layers).enumerate() {
                    coin.reseed(*cm);
                    let alpha: E = coin.draw().unwrap();
                    if k == ch.break_at {
                        differs = fold_with(&cur, alpha) != fold_with(&cur, alpha + E::ONE);
                        cur = fold_with(&cur, alpha + E::ONE);
                    } else {
                        cur = fold_with(&cur, alpha);
                    }
                }
                differs
            };
            if !deviates {
                st.count("skipped.wrong_alpha_folds_identically(not a deviation)");
                return;
            }
            verdict(st, "prover folded one layer with alpha + 1", proof, comm, &fvals, &pos, n - 1, None);
        },
    }
    st.count(&format!("strategy.{strategy}"));
    st.count(&format!("function.{}", fkind.split('-').next().unwrap_or("")));
    st.count(&format!("config.{tag}"));
    st.distinct.insert(wfv::fnv(format!("{tag}{c:?}{fkind}{strategy}{i}").as_bytes()));
    st.sample(strategy, || desc("sample"));
}

fn drive<B: Fld, E: FieldElement<BaseField = B>, H: ElementHasher<BaseField = B>>(run: &Run, tag: &str, n: u64)
where
    <H as Hasher>::Digest: Send + Sync,
{
    run.par(tag, n, |i, rng, st| case::<B, E, H>(rng, st, i, tag));
}

fn main() {
    let run = Run::start("C05");
    type B62 = f62::BaseElement;
    type B64 = f64::BaseElement;
    type B128 = f128::BaseElement;
    let n = run.size(6_000, 400_000);
    drive::<B64, B64, Blake3_256<B64>>(&run, "f64/Blake3_256", n);
    drive::<B64, QuadExtension<B64>, Rp64_256>(&run, "f64^2/Rp64_256", n / 3);
    drive::<B64, CubeExtension<B64>, RpJive64_256>(&run, "f64^3/RpJive64_256", n / 3);
    drive::<B62, B62, Rp62_248>(&run, "f62/Rp62_248", n / 3);
    drive::<B62, QuadExtension<B62>, Sha3_256<B62>>(&run, "f62^2/Sha3_256", n);
    drive::<B62, CubeExtension<B62>, Blake3_192<B62>>(&run, "f62^3/Blake3_192", n);
    drive::<B128, B128, Blake3_192<B128>>(&run, "f128/Blake3_192", n);
    drive::<B128, QuadExtension<B128>, Sha3_256<B128>>(&run, "f128^2/Sha3_256", n / 2);
    let mut require = Vec::new();
    for s in ["honest-folding", "remainder-after-queries", "remainder-plus-vanishing", "tampered-layer-value", "wrong-alpha", "omitted-layer", "swapped-layers", "wrong-degree-claim", "oversized-remainder", "claimed-evaluation-mismatch", "partitioned-layout", "rows-made-up-after-the-queries", "stretched-remainder"] {
        require.push((format!("rejected.{s}"), 20));
    }
    require.push(("oracle.recomputed_rejection_required".into(), 50));
    run.finish(Finish {
        rule: "instances: blowup 2..32 x folding 2..16 x remainder max degree 0..31 x degree bounds 3..511, domain 16..4096, 100 queries (honest-folding acceptance probability <= max(1/blowup,3/4)^q <= 2^-40); functions: random, polynomial of degree bound+1, of degree in (bound+1..domain-1), of degree domain-1, low-degree corrupted on 1/4, 1/2, 3/4 of the domain; strategies (all commit honestly to each folded layer): honest folding, remainder interpolated through the queried points after seeing them, honest remainder + c*vanishing polynomial of the queried points, oversized remainder, one layer value tampered, folding with alpha+1 at one layer (also for genuine low-degree inputs; cases in which alpha+1 folds identically are not deviations and are skipped), first-layer rows rewritten after the positions are known (queried entries carry the far function, an unqueried entry of the row is adjusted so that the row folds to the same value; partition field 0 or 16), a hand-written prover committing in the layout with 2/4/8 partitions (honest folding of the far function; a function unfolded from small polynomials with the coordinates of the rows' leaf indexes and folded with those coordinates), evaluations claimed to the verifier that differ from the committed first layer at queried positions sharing a coset with other queried positions (altered one first / middle / last in the list), a function that folds honestly into the values of a small polynomial over half of a domain of twice the size, with that polynomial zero-padded to twice the regular length as the (honestly committed) remainder, a layer omitted / two layers swapped (with and without the matching commitment edit), too small a degree claim for a genuine polynomial. Expected: rejected or unparsable; an acceptance under honest folding is tolerated only if an independent recomputation (last layer refolded with the coin's challenges, remainder evaluated at every final position) shows all queried positions consistent. distinct = distinct generated instance".into(),
        assumptions: vec![
            "finite strategy library: a clean run means none of these strategies was accepted, not soundness".into(),
            "evaluations of test polynomials use the library FFT (C09); refolding uses apply_drp (C15)".into(),
        ],
        exhaustive: false,
        require,
        extra: vec![],
    });
}
