//! C17 The committed composition polynomial equals its definition: the value of
//! sum_i x^(i*n) H_i(x) obtained from DefaultConstraintEvaluator -> CompositionPoly is compared at
//! random points with the definition evaluated from the raw trace by naive interpolation. The
//! assignment of coefficients to constraints is discovered with one-hot coefficient vectors.
use std::sync::Arc;

use winter_air::{
    Air, AuxRandElements, ConstraintCompositionCoefficients, EvaluationFrame, FieldExtension,
    LagrangeConstraintsCompositionCoefficients, LagrangeKernelRandElements,
};
use winter_crypto::hashers::Blake3_256;
use winter_math::{
    fields::{f128, f62, f64, CubeExtension, QuadExtension},
    polynom, FieldElement, StarkField,
};
use winter_prover::{matrix::ColMatrix, CompositionPoly, ConstraintEvaluator, DefaultConstraintEvaluator, DefaultTraceLde, StarkDomain, TraceLde};
use wfv::{
    catch,
    fields::Fld,
    gen::*,
    genair::*,
    stark::{self, Fd},
    Finish, Rng, Run, State, J,
};

/// naive interpolation of `ys` over the subgroup of size ys.len(): coefficients
fn interp<B: Fld, E: FieldElement<BaseField = B>>(ys: &[E]) -> Vec<E> {
    let n = ys.len();
    let g = B::get_root_of_unity(n.ilog2());
    let mut xs = Vec::with_capacity(n);
    let mut x = B::ONE;
    for _ in 0..n {
        xs.push(E::from(x));
        x *= g;
    }
    polynom::interpolate(&xs, ys, false)
}

struct Reference<E: FieldElement> {
    /// value of each transition term C_t(x)/Z(x) (main then aux) without its coefficient
    transition: Vec<E>,
    /// value of each boundary term (T(x)-v(x))/Z_b(x), main assertions in declaration order then aux
    boundary: Vec<E>,
    lagrange_transition: Vec<E>,
    lagrange_boundary: Option<E>,
}

#[allow(clippy::too_many_arguments)]
fn reference_at<B: Fld, E: FieldElement<BaseField = B>>(
    air: &GAir<B>,
    shape: &Shape,
    main_polys: &[Vec<B>],
    aux_polys: &[Vec<E>],
    rands: &[E],
    lag_r: &Option<Vec<E>>,
    x: E,
) -> Reference<E> {
    let n = shape.n();
    let g = B::get_root_of_unity(shape.log_n);
    let gx = x * E::from(g);
    let cur: Vec<E> = main_polys.iter().map(|p| p_eval::<B, E>(p, x)).collect();
    let nxt: Vec<E> = main_polys.iter().map(|p| p_eval::<B, E>(p, gx)).collect();
    // periodic columns: cycle polynomial evaluated at x^(n/cycle)
    let per: Vec<E> = shape
        .periodic_values::<B>()
        .iter()
        .map(|v| {
            let poly = interp::<B, B>(v);
            p_eval::<B, E>(&poly, pow(x, (n / v.len()) as u128))
        })
        .collect();
    let frame = EvaluationFrame::from_rows(cur.clone(), nxt.clone());
    let mut t = vec![E::ZERO; shape.width()];
    air.evaluate_transition(&frame, &per, &mut t);
    // transition divisor (x^n - 1) / prod_{k=n-e}^{n-1} (x - g^k)
    let mut z = pow(x, n as u128) - E::ONE;
    for k in n - shape.exemptions..n {
        z /= x - E::from(g.exp_vartime(B::pi(k as u128)));
    }
    let mut transition: Vec<E> = t.iter().map(|v| *v / z).collect();
    let mut boundary = Vec::new();
    let vals = &air_values(air);
    for (a, v) in shape.asserts.iter().zip(vals) {
        let steps = a.steps(n);
        let pts: Vec<E> = steps.iter().map(|s| E::from(g.exp_vartime(B::pi(*s as u128)))).collect();
        let ys: Vec<E> = steps.iter().enumerate().map(|(k, _)| E::from(if matches!(a.kind, AKind::Sequence { .. }) { v[k] } else { v[0] })).collect();
        let vp = polynom::interpolate(&pts, &ys, false);
        let zb = pts.iter().fold(E::ONE, |acc, p| acc * (x - *p));
        boundary.push((cur[a.col] - p_eval::<E, E>(&vp, x)) / zb);
    }
    let mut lagrange_transition = Vec::new();
    let mut lagrange_boundary = None;
    if let Some(a) = &shape.aux {
        let acur: Vec<E> = aux_polys.iter().map(|p| p_eval::<E, E>(p, x)).collect();
        let anxt: Vec<E> = aux_polys.iter().map(|p| p_eval::<E, E>(p, gx)).collect();
        let aframe = EvaluationFrame::from_rows(acur.clone(), anxt);
        let mut at = vec![E::ZERO; a.cols];
        air.evaluate_aux_transition::<E, E>(&frame, &aframe, &per, rands, &mut at);
        transition.extend(at.iter().map(|v| *v / z));
        for j in 0..a.cols {
            // aux assertions of the family: first step equals 1 (products) or 0 (sums)
            let v = if a.rands > 0 { E::ONE } else { E::ZERO };
            boundary.push((acur[j] - v) / (x - E::ONE));
        }
        if let Some(r) = lag_r {
            let s = &aux_polys[a.cols];
            let v = shape.log_n as usize;
            let sx = p_eval::<E, E>(s, x);
            for k in 1..=v {
                // r[v-k] * s(x) - (1 - r[v-k]) * s(x * g^(2^(v-k))) over the domain of size 2^(k-1)
                let shift = E::from(g.exp_vartime(B::pi(1u128 << (v - k))));
                let num = r[v - k] * sx - (E::ONE - r[v - k]) * p_eval::<E, E>(s, x * shift);
                let zk = pow(x, 1u128 << (k - 1)) - E::ONE;
                lagrange_transition.push(num / zk);
            }
            let av = r.iter().fold(E::ONE, |acc, ri| acc * (E::ONE - *ri));
            lagrange_boundary = Some((sx - av) / (x - E::ONE));
        }
    }
    Reference { transition, boundary, lagrange_transition, lagrange_boundary }
}

fn air_values<B: Fld>(air: &GAir<B>) -> Vec<Vec<B>> {
    // the assertion values are the public inputs the AIR was built from
    air.get_assertions().iter().map(|a| a.values().to_vec()).collect()
}

fn committed_at<B: Fld, E: FieldElement<BaseField = B>>(
    air: &GAir<B>,
    lde: &DefaultTraceLde<E, Blake3_256<B>>,
    domain: &StarkDomain<B>,
    aux: Option<AuxRandElements<E>>,
    cc: ConstraintCompositionCoefficients<E>,
    n: usize,
    xs: &[E],
) -> Vec<E> {
    let ev = DefaultConstraintEvaluator::<GAir<B>, E>::new(air, aux, cc);
    let ctrace = ev.evaluate(lde, domain);
    let ncols = air.context().num_constraint_composition_columns();
    let cp = CompositionPoly::new(ctrace, domain, ncols);
    xs.iter()
        .map(|x| cp.evaluate_at(*x).iter().enumerate().fold(E::ZERO, |acc, (i, v)| acc + pow(*x, (i * n) as u128) * *v))
        .collect()
}

fn instance<B: Fld, E: FieldElement<BaseField = B>>(i: u64, rng: &mut Rng, st: &mut State, fd: Fd, ext: FieldExtension) {
    let lim = Limits { max_log_n: if i % 9 == 0 { 8 } else { 6 }, max_width: 6, max_blowup: *rng.pick(&[2, 4, 8]), allow_aux: true };
    let mut shape = Shape::random(rng, &lim);
    if i % 4 == 0 {
        // emphasised: periodic columns of different cycle lengths, long sequences with non-zero first step
        let n = shape.n();
        shape.periodic = vec![Per::Values(vec![3, 1, 4, 1]), Per::Values((0..n / 2).map(|k| (k * 7 + 2) as u32).collect()), Per::UnitProduct(2)];
        shape.rules = vec![
            Rule::Pow { d: 2, a: 1, b: 1, src: 1, per: Some(0) },
            Rule::MulPer { per: 1, src: Some(0) },
            Rule::MulPer { per: 2, src: None },
            Rule::Pow { d: 1, a: 2, b: 3, src: 0, per: Some(1) },
        ];
        shape.exemptions = rng.range(1, shape.max_exemptions().max(1));
        let cnt = if n >= 128 { *rng.pick(&[64usize, 128, 32]) } else { n / 2 };
        let stride = n / cnt.min(n / 2);
        shape.asserts = vec![
            ASpec { col: 0, kind: AKind::Single(0) },
            ASpec { col: 1, kind: AKind::Sequence { first: if rng.bool() { stride - 1 } else { 0 }, stride } },
            ASpec { col: 2, kind: AKind::Periodic { first: 1, stride: 2 } },
            ASpec { col: 3, kind: AKind::Single(n - 1) },
        ];
    }
    let shape = Arc::new(shape);
    let n = shape.n();
    let options = random_options(rng, &shape, ext, 16);
    let kind = if rng.chance(1, 10) { TraceKind::SmallValues } else { TraceKind::Random };
    let cols_r = stark::gen_trace(fd, &shape, rng, kind);
    let cols: Vec<Vec<B>> = cols_r.0.iter().map(|c| c.iter().map(|v| B::from_res(*v)).collect()).collect();
    let values: Vec<Vec<B>> = cols_r.1.iter().map(|c| c.iter().map(|v| B::from_res(*v)).collect()).collect();
    let pubs = GPub::<B> { shape: shape.clone(), values };
    let ti = shape.trace_info();
    let desc = |what: &str, extra: String| J::obj(vec![("field", J::s(type_name::<B, E>())), ("options", J::s(format!("{options:?}"))), ("shape", shape.json()), ("what", J::s(what)), ("detail", J::s(extra))]);
    let r = catch(|| {
        let air = GAir::<B>::new(ti.clone(), pubs.clone(), options.clone());
        let domain = StarkDomain::new(&air);
        let main = ColMatrix::new(cols.clone());
        let (mut lde, _polys) = DefaultTraceLde::<E, Blake3_256<B>>::new(&ti, &main, &domain);
        // auxiliary segment with randomness chosen here
        let (rands, lag_r, aux_cols): (Vec<E>, Option<Vec<E>>, Vec<Vec<E>>) = match &shape.aux {
            Some(a) => {
                let rands = rand_vec::<B, E>(rng, a.rands);
                let lag = if a.lagrange { Some(rand_vec::<B, E>(rng, shape.log_n as usize)) } else { None };
                let auxm = build_aux::<B, E>(&shape, &main, &rands, lag.clone());
                let _ = lde.set_aux_trace(&auxm, &domain);
                (rands, lag, auxm.into_columns())
            },
            None => (vec![], None, vec![]),
        };
        let mk_aux = || shape.aux.as_ref().map(|_| AuxRandElements::new_with_lagrange(rands.clone(), lag_r.clone().map(LagrangeKernelRandElements::new)));
        let nt = air.context().num_transition_constraints();
        let na = air.context().num_assertions();
        let nl = if lag_r.is_some() { shape.log_n as usize } else { 0 };
        let mk_cc = |t: Vec<E>, b: Vec<E>, lt: Vec<E>, lb: E| ConstraintCompositionCoefficients { transition: t, boundary: b, lagrange: if lag_r.is_some() { Some(LagrangeConstraintsCompositionCoefficients { transition: lt, boundary: lb }) } else { None } };
        // evaluation points: random, one LDE-domain point, one point of the trace-domain coset
        // random points outside the trace domain (the definition has poles there)
        let mut xs: Vec<E> = Vec::new();
        while xs.len() < 6 {
            let x = rand_nonzero::<B, E>(rng);
            if pow(x, n as u128) != E::ONE {
                xs.push(x);
            }
        }
        let lde_g = B::get_root_of_unity((n * options.blowup_factor()).ilog2());
        xs.push(E::from(B::GENERATOR * lde_g.exp_vartime(B::pi(rng.usize(n * options.blowup_factor()) as u128))));
        xs.push(E::from(B::GENERATOR * B::get_root_of_unity(shape.log_n).exp_vartime(B::pi(rng.usize(n) as u128))));
        let main_polys: Vec<Vec<B>> = cols.iter().map(|c| interp::<B, B>(c)).collect();
        let aux_polys: Vec<Vec<E>> = aux_cols.iter().map(|c| interp::<B, E>(c)).collect();
        let refs: Vec<Reference<E>> = xs.iter().map(|x| reference_at::<B, E>(&air, &shape, &main_polys, &aux_polys, &rands, &lag_r, *x)).collect();
        // (1) discover the coefficient -> constraint assignment with one-hot vectors (sampled)
        let total = nt + na + nl + (nl > 0) as usize;
        let mut assignment: Vec<Option<usize>> = vec![None; total];
        let one_hot = i % 3 == 0 && total <= 24;
        if one_hot {
            for j in 0..total {
                let mut all = vec![E::ZERO; total];
                all[j] = E::ONE;
                let cc = mk_cc(all[..nt].to_vec(), all[nt..nt + na].to_vec(), all[nt + na..nt + na + nl].to_vec(), if nl > 0 { all[total - 1] } else { E::ZERO });
                let got = committed_at::<B, E>(&air, &lde, &domain, mk_aux(), cc, n, &xs);
                // the reference terms, in the order: transition, boundary, lagrange transition, lagrange boundary
                let term = |k: usize, p: usize| -> E {
                    let r = &refs[p];
                    if k < nt {
                        r.transition[k]
                    } else if k < nt + na {
                        r.boundary[k - nt]
                    } else if k < nt + na + nl {
                        r.lagrange_transition[k - nt - na]
                    } else {
                        r.lagrange_boundary.unwrap()
                    }
                };
                let matches: Vec<usize> = (0..total).filter(|k| (0..xs.len()).all(|p| term(*k, p) == got[p])).collect();
                if matches.is_empty() {
                    return Err(format!("one-hot coefficient {j} of {total} (transition {nt}, boundary {na}, lagrange {nl}) produces a polynomial that equals no term of the definition"));
                }
                // boundary coefficients may be assigned in the library's canonical (sorted) order
                let same_class = |k: usize| (j < nt) == (k < nt) && (j < nt + na) == (k < nt + na);
                if !matches.iter().any(|k| same_class(*k)) {
                    return Err(format!("one-hot coefficient {j} matches a term of another constraint class"));
                }
                assignment[j] = matches.iter().copied().find(|k| same_class(*k));
            }
            // injective on distinguishable terms
            let mut seen = std::collections::BTreeSet::new();
            for a in assignment.iter().flatten() {
                seen.insert(*a);
            }
            let distinct_terms = {
                let mut v: Vec<Vec<u128>> = Vec::new();
                for k in 0..total {
                    let t = if k < nt { refs[0].transition[k] } else if k < nt + na { refs[0].boundary[k - nt] } else if k < nt + na + nl { refs[0].lagrange_transition[k - nt - na] } else { refs[0].lagrange_boundary.unwrap() };
                    let key = res_vec::<B, E>(&t);
                    if !v.contains(&key) {
                        v.push(key);
                    }
                }
                v.len()
            };
            if seen.len() < distinct_terms {
                return Err(format!("coefficient assignment is not a bijection: {} coefficients reach {} of {} distinguishable terms", total, seen.len(), distinct_terms));
            }
        }
        // (2) random coefficients: committed value == definition
        let coeffs = rand_vec::<B, E>(rng, total);
        let cc = mk_cc(coeffs[..nt].to_vec(), coeffs[nt..nt + na].to_vec(), coeffs[nt + na..nt + na + nl].to_vec(), if nl > 0 { coeffs[total - 1] } else { E::ZERO });
        let got = committed_at::<B, E>(&air, &lde, &domain, mk_aux(), cc, n, &xs);
        // boundary coefficients are handed out in the library's canonical assertion order: use the
        // discovered assignment when available, otherwise the sorted order of the assertions
        let order: Vec<usize> = if one_hot {
            assignment.iter().map(|a| a.unwrap()).collect()
        } else {
            let mut idx: Vec<usize> = (0..shape.asserts.len()).collect();
            let asserts = air.get_assertions();
            idx.sort_by(|a, b| asserts[*a].cmp(&asserts[*b]));
            let mut o: Vec<usize> = (0..nt).collect();
            o.extend(idx.iter().map(|k| nt + k));
            o.extend(nt + shape.asserts.len()..total);
            o
        };
        for (p, x) in xs.iter().enumerate() {
            let r = &refs[p];
            let term = |k: usize| if k < nt { r.transition[k] } else if k < nt + na { r.boundary[k - nt] } else if k < nt + na + nl { r.lagrange_transition[k - nt - na] } else { r.lagrange_boundary.unwrap() };
            let want = (0..total).fold(E::ZERO, |acc, j| acc + coeffs[j] * term(order[j]));
            if got[p] != want {
                return Err(format!("committed composition polynomial differs from its definition at point #{p} = {}", show::<B, E>(x)));
            }
        }
        Ok((nt, na, nl, one_hot))
    });
    st.evals += 1;
    match r {
        Ok(Ok((nt, na, nl, one_hot))) => {
            st.count(&format!("instances.{}", type_name::<B, E>()));
            if one_hot {
                st.count("one_hot.instances");
                st.add("one_hot.coefficients", (nt + na + nl) as u64);
            }
            if nl > 0 {
                st.count("instances.with_lagrange");
            }
            if shape.aux.is_some() {
                st.count("instances.with_aux");
            }
            if shape.asserts.iter().any(|a| matches!(a.kind, AKind::Sequence { first, stride } if first != 0 && n / stride >= 64)) {
                st.count("instances.sequence_ge64_nonzero_first");
            }
            if shape.periodic.len() >= 2 {
                st.count("instances.several_periodic_cycles");
            }
            let hi = shape.main_degrees().iter().chain(shape.aux_degrees().iter()).map(|d| d.get_evaluation_degree(n)).max().unwrap_or(0);
            if (hi - (n - shape.exemptions)) % n == 0 {
                st.count("instances.composition_degree_multiple_of_n");
            }
            if shape.min_blowup() < options.blowup_factor() {
                st.count("instances.ce_blowup_lt_lde_blowup");
            }
        },
        Ok(Err(e)) => {
            let key: String = e.chars().filter(|c| !c.is_ascii_digit()).take(60).collect();
            st.violation(format!("{}:{}", type_name::<B, E>(), key), desc("mismatch", e))
        },
        Err(p) => st.violation(format!("panic:{}", p.sig), desc("panic", p.msg)),
    }
    // the verifier's side of the clause: its evaluation of the same expression from the opened
    // frame is internal to verify(); it is observed through the out-of-domain consistency check of
    // an honest proof produced by the real prover for the same computation
    if i % 2 == 0 {
        let inst = stark::Instance { fd, hs: stark::Hs::Blake3_256, shape: shape.clone(), options: options.clone(), cols: cols_r.0.clone(), values: cols_r.1.clone() };
        match stark::prove(&inst, false) {
            stark::Proved::Ok(proof) => {
                match stark::verify_proof(fd, stark::Hs::Blake3_256, &shape, &inst.values, proof, &winter_verifier::AcceptableOptions::MinConjecturedSecurity(0), false) {
                    Ok(Ok(())) => st.count("verifier_side.ood_consistency_held"),
                    Ok(Err(e)) if e.contains("out-of-domain") => st.violation(format!("{}:verifier_evaluation_disagrees_with_the_committed_composition", type_name::<B, E>()), desc("verify", e)),
                    Ok(Err(_)) | Err(_) => st.count("verifier_side.other_outcome(see C01)"),
                }
                st.evals += 1;
            },
            _ => st.count("verifier_side.prover_did_not_produce_a_proof(see C01)"),
        }
    }
    st.distinct.insert(wfv::fnv(format!("{}{:?}{i}", type_name::<B, E>(), shape.encode()).as_bytes()));
    st.sample(&type_name::<B, E>(), || desc("sample", String::new()));
}

fn main() {
    let run = Run::start("C17");
    type B62 = f62::BaseElement;
    type B64 = f64::BaseElement;
    type B128 = f128::BaseElement;
    let n = run.size(30_000, 2_000_000);
    run.par("instances", n, |i, rng, st| match i % 8 {
        0 => instance::<B64, B64>(i, rng, st, Fd::F64, FieldExtension::None),
        1 => instance::<B64, QuadExtension<B64>>(i, rng, st, Fd::F64, FieldExtension::Quadratic),
        2 => instance::<B64, CubeExtension<B64>>(i, rng, st, Fd::F64, FieldExtension::Cubic),
        3 => instance::<B62, B62>(i, rng, st, Fd::F62, FieldExtension::None),
        4 => instance::<B62, QuadExtension<B62>>(i, rng, st, Fd::F62, FieldExtension::Quadratic),
        5 => instance::<B62, CubeExtension<B62>>(i, rng, st, Fd::F62, FieldExtension::Cubic),
        6 => instance::<B128, B128>(i, rng, st, Fd::F128, FieldExtension::None),
        _ => instance::<B128, QuadExtension<B128>>(i, rng, st, Fd::F128, FieldExtension::Quadratic),
    });
    let mut require = vec![("one_hot.instances".to_string(), 50), ("instances.with_aux".to_string(), 20), ("instances.with_lagrange".to_string(), 5), ("instances.sequence_ge64_nonzero_first".to_string(), 3), ("instances.several_periodic_cycles".to_string(), 50), ("instances.composition_degree_multiple_of_n".to_string(), 20), ("instances.ce_blowup_lt_lde_blowup".to_string(), 50), ("verifier_side.ood_consistency_held".to_string(), 500)];
    for t in ["f64", "f64^2", "f64^3", "f62", "f62^2", "f62^3", "f128", "f128^2"] {
        require.push((format!("instances.{t}"), 20));
    }
    run.finish(Finish {
        rule: "instances of the C01 family (n = 8..256, every 4th instance with periodic columns of cycle lengths 4, n/2 and 2, sequence assertions of 32..128 values with zero and non-zero first step, periodic assertions; auxiliary segments with and without Lagrange kernel; constraint-evaluation blowup below the LDE blowup; all exemption counts the context accepts) over 8 field/extension types. Per instance: the real evaluator + CompositionPoly give sum_i x^(i n) H_i(x) at 6 random points, one LDE-domain point and one trace-coset point; the definition is evaluated from naively interpolated trace polynomials (transition terms over the transition divisor, boundary terms with interpolated assertion values over their divisors, Lagrange-kernel terms). On every third instance the coefficient-to-constraint assignment is discovered with one-hot coefficient vectors and must be a bijection within each constraint class. On every second instance the real prover produces a proof for the same computation and the real verifier checks it: a rejection by the out-of-domain consistency check means the verifier's evaluation of the expression disagrees with the committed polynomial. distinct = distinct instance".into(),
        assumptions: vec![
            "naive interpolation uses polynom::interpolate (C20) and field operations (C07/C08)".into(),
            "boundary coefficients are assigned in the library's canonical assertion order (checked by the one-hot runs on a third of the instances)".into(),
            "the verifier's evaluation is internal to verify(); it is observed through the out-of-domain consistency check (other rejections and prover failures are C01's matter and only counted here)".into(),
        ],
        exhaustive: false,
        require,
        extra: vec![],
    });
}
