//! C01 Completeness: for every generated (computation description, valid trace, admissible
//! options, field, extension, hasher) proof generation must succeed and the verifier must accept,
//! directly and after the byte round trip. The reference validity predicate decides which traces
//! are valid; boundary shapes are generated first, random ones afterwards.
use std::{io::Cursor, sync::Arc};

use winter_air::{proof::Proof, FieldExtension, ProofOptions};
use winter_utils::{Deserializable, ReadAdapter, Serializable};
use winter_verifier::AcceptableOptions;
use wfv::{
    chunks::{ChunkedSource, Schedule},
    genair::*,
    stark::{self, Fd, Hs, Instance, Proved, COMBOS},
    Finish, Rng, Run, State, J,
};

fn ext_of(k: u64, fd: Fd) -> FieldExtension {
    match k % 3 {
        0 => FieldExtension::None,
        1 => FieldExtension::Quadratic,
        _ if stark::cubic_supported(fd) => FieldExtension::Cubic,
        _ => FieldExtension::Quadratic,
    }
}

fn norm(e: &str) -> String {
    let mut out = String::new();
    let mut last = false;
    for c in e.chars() {
        if c.is_ascii_digit() {
            if !last {
                out.push('#');
            }
            last = true;
        } else {
            last = false;
            out.push(if c.is_whitespace() { '_' } else { c });
        }
        if out.len() > 90 {
            break;
        }
    }
    out
}

/// deterministic boundary shapes (index k), None when k is past the list
fn boundary_shape(k: u64, rng: &mut Rng) -> Option<(Shape, Option<ProofOptions>, TraceKind, &'static str)> {
    let simple = |log_n: u32, width: usize, d: u32, e: usize| Shape {
        log_n,
        rules: (0..width).map(|c| Rule::Pow { d, a: 1 + (c as u32 % 3), b: (c as u32 % 2), src: (c + 1) % width, per: None }).collect(),
        periodic: vec![],
        exemptions: e,
        asserts: vec![ASpec { col: 0, kind: AKind::Single(0) }],
        aux: None,
        meta: vec![],
    };
    let widths = [1usize, 2, 7, 8, 9, 16, 17, 254, 255];
    let mut k = k as usize;
    // (1) widths
    if k < widths.len() {
        return Some((simple(4, widths[k], 2, 1), None, TraceKind::Random, "width-boundary"));
    }
    k -= widths.len();
    // (2) every exemption count for n = 8, 16, 32 with degree 2 and degree 3 constraints
    let mut list = Vec::new();
    for log_n in [3u32, 4, 5] {
        for d in [1u32, 2, 3] {
            for e in 1..=(1usize << log_n) / 2 + 1 {
                list.push((log_n, d, e));
            }
        }
    }
    if k < list.len() {
        let (log_n, d, e) = list[k];
        let mut sh = simple(log_n, 2, d, e);
        if e > sh.max_exemptions() {
            sh.exemptions = sh.max_exemptions();
        }
        return Some((sh, None, TraceKind::Random, "every-exemption-count"));
    }
    k -= list.len();
    // (3) degenerate traces
    let kinds = [TraceKind::AllZero, TraceKind::AllOne, TraceKind::SmallValues];
    if k < 6 {
        let mut sh = simple(4, 3, if k < 3 { 2 } else { 1 }, 1);
        if k >= 3 {
            // constant columns
            sh.rules = (0..3).map(|c| Rule::Pow { d: 1, a: 1, b: 0, src: c, per: None }).collect();
        }
        return Some((sh, None, kinds[k % 3], "degenerate-trace"));
    }
    k -= 6;
    // (4) option boundaries
    let opt_list: Vec<(usize, usize, u32, usize, usize, u32)> = vec![
        // queries, blowup, grinding, folding, remainder degree, log_n
        (255, 8, 0, 4, 7, 7),
        (254, 4, 0, 2, 0, 7),
        (1, 2, 0, 2, 0, 3),
        (20, 128, 0, 8, 255, 5),
        (20, 2, 16, 16, 1, 6),
        (30, 8, 1, 16, 255, 8),
        (40, 16, 0, 4, 3, 10),
        (255, 2, 0, 2, 127, 12),
    ];
    if k < opt_list.len() {
        let (q, b, g, f, r, log_n) = opt_list[k];
        let sh = simple(log_n, 2, (b as u32 + 1).min(3), 1);
        let o = ProofOptions::new(q, b.max(sh.min_blowup()), g, FieldExtension::None, f, r);
        return Some((sh, Some(o), TraceKind::Random, "option-boundary"));
    }
    k -= opt_list.len();
    // (5) assertion boundaries: long sequences with non-zero first step, periodic assertions, many periodic columns
    if k < 8 {
        let log_n = 8u32;
        let n = 1usize << log_n;
        let mut sh = simple(log_n, 3, 2, 1 + k % 3);
        sh.periodic = vec![Per::Values(vec![1, 2, 3, 4]), Per::Values((0..n / 2).map(|i| (i * i + 3) as u32).collect()), Per::UnitProduct(8)];
        sh.rules[1] = Rule::MulPer { per: 1, src: Some(0) };
        sh.rules[2] = Rule::MulPer { per: 2, src: None };
        sh.rules[0] = Rule::Pow { d: 2, a: 1, b: 0, src: 0, per: Some(0) };
        let counts = [64usize, 128, 32, 2];
        let cnt = counts[k % 4];
        let stride = n / cnt;
        sh.asserts = vec![
            ASpec { col: 0, kind: AKind::Single(0) },
            ASpec { col: 1, kind: AKind::Sequence { first: if k < 4 { stride - 1 } else { 0 }, stride } },
            ASpec { col: 2, kind: AKind::Periodic { first: 3, stride: 8 << (k % 2) } },
            ASpec { col: 0, kind: AKind::Single(n - 1) },
        ];
        return Some((sh, None, TraceKind::Random, "assertion-boundary"));
    }
    k -= 8;
    // (6) auxiliary segment / Lagrange kernel
    if k < 6 {
        let mut sh = simple(4 + (k as u32 % 3), 2 + k % 3, 2, 1);
        sh.aux = Some(AuxShape { cols: 1 + k % 2, rands: [0usize, 1, 3][k % 3], lagrange: k >= 3 });
        return Some((sh, None, TraceKind::Random, "aux-segment"));
    }
    let _ = rng;
    None
}

fn features(sh: &Shape, o: &ProofOptions) -> Vec<String> {
    let n = sh.n();
    let mut f = Vec::new();
    if sh.width() >= 254 {
        f.push("width>=254".to_string());
    }
    if o.num_queries() >= 254 {
        f.push("queries>=254".to_string());
    }
    // composition degree = highest evaluation degree - divisor degree
    let hi = sh.main_degrees().iter().chain(sh.aux_degrees().iter()).map(|d| d.get_evaluation_degree(n)).max().unwrap_or(0);
    let cdeg = hi - (n - sh.exemptions);
    if cdeg % n == 0 {
        f.push("composition-degree-multiple-of-n".to_string());
    }
    if sh.aux.is_some() {
        f.push("aux".to_string());
    }
    if sh.aux.as_ref().map(|a| a.lagrange).unwrap_or(false) {
        f.push("lagrange".to_string());
    }
    f
}

fn case(run: &Run, i: u64, rng: &mut Rng, st: &mut State, thorough: bool) {
    let (fd, hs) = COMBOS[(i % COMBOS.len() as u64) as usize];
    let ext = ext_of(i / COMBOS.len() as u64, fd);
    let bidx = i / (COMBOS.len() as u64 * 3);
    let (shape, opts, kind, class) = match boundary_shape(bidx, rng) {
        Some((s, o, k, c)) => (s, o, k, c),
        None => {
            let lim = Limits { max_log_n: if rng.chance(1, 20) { 11 } else { 8 }, max_width: 40, max_blowup: *rng.pick(&[2, 4, 8, 8, 16]), allow_aux: true };
            let s = Shape::random(rng, &lim);
            let kind = if rng.chance(1, 12) { *rng.pick(&[TraceKind::AllZero, TraceKind::AllOne, TraceKind::SmallValues]) } else { TraceKind::Random };
            (s, None, kind, "random")
        },
    };
    let mut options = match opts {
        Some(o) => ProofOptions::new(o.num_queries().min(shape.n() * o.blowup_factor() - 1), o.blowup_factor(), o.grinding_factor(), ext, o.to_fri_options().folding_factor(), o.to_fri_options().remainder_max_degree()),
        None => random_options(rng, &shape, ext, 32),
    };
    // keep the schedule well-formed for the boundary options too
    if !wfv::frih::schedule_well_formed(shape.n() * options.blowup_factor(), &options.to_fri_options()) {
        options = random_options(rng, &shape, ext, options.blowup_factor());
    }
    // Rescue hashers make grinding slow; cap it
    if matches!(hs, Hs::Rp62_248 | Hs::Rp64_256 | Hs::RpJive64_256) && options.grinding_factor() > 8 {
        options = ProofOptions::new(options.num_queries(), options.blowup_factor(), 8, ext, options.to_fri_options().folding_factor(), options.to_fri_options().remainder_max_degree());
    }
    let shape = Arc::new(shape);
    let (cols, values) = stark::gen_trace(fd, &shape, rng, kind);
    if let Err(e) = stark::validity(fd, &shape, &cols, &values) {
        st.violation("harness:generated-trace-invalid", J::obj(vec![("why", J::s(e)), ("shape", shape.json())]));
        return;
    }
    if shape.n() * shape.width() <= 1 << 12 {
        if let Err(e) = stark::library_validate(fd, &shape, &options, &cols, &values) {
            st.violation("Trace::validate-refuses-valid-trace", J::obj(vec![("why", J::s(e)), ("shape", shape.json())]));
        }
        st.count("validity.cross_checked_with_Trace::validate");
    }
    let inst = Instance { fd, hs, shape: shape.clone(), options: options.clone(), cols, values };
    let feats = features(&shape, &options);
    let tag = if kind != TraceKind::Random { format!("[{:?}]", kind) } else { String::new() };
    let detail = |what: &str, err: &str| {
        J::obj(vec![
            ("field", J::s(format!("{fd:?}"))),
            ("hasher", J::s(format!("{hs:?}"))),
            ("extension", J::s(format!("{ext:?}"))),
            ("options", J::s(format!("{options:?}"))),
            ("shape", shape.json()),
            ("trace_kind", J::s(format!("{kind:?}"))),
            ("class", J::s(class)),
            ("features", J::arr_s(&feats)),
            ("what", J::s(what)),
            ("error", J::s(err)),
        ])
    };
    // runs in which the coin exhausts its 1000 attempts for one draw are outside the claim; only the cubic extension
    // of the 62-bit field (24-byte elements, three 62-bit coefficients: 63 of 64 candidates are rejected) has a
    // noticeable chance of that, so the exclusion is applied there only and its rate is bounded at the end of the run
    let exhaustible = fd == Fd::F62 && ext == FieldExtension::Cubic;
    let fsig = feats.iter().filter(|f| f.starts_with("width") || f.starts_with("queries") || f.starts_with("composition")).cloned().collect::<Vec<_>>().join(",");
    st.evals += 1;
    let proof = match stark::prove(&inst, false) {
        Proved::Ok(p) => p,
        Proved::Err(e) => {
            if exhaustible && wfv::report::is_coin_exhaustion(&e) {
                st.count("outside_claim.coin_exhausted");
            } else {
                st.violation(format!("prove-error:{}{tag}[{fsig}]", norm(&e)), detail("prover returned an error for a valid trace", &e));
            }
            return;
        },
        Proved::Panic(p) => {
            // the prover's channel turns a failed draw into a panic (expect)
            if exhaustible && wfv::report::is_coin_exhaustion(&p.msg) {
                st.count("outside_claim.coin_exhausted");
            } else {
                st.violation(format!("prove-panic:{}{tag}[{fsig}]", p.sig), detail("prover panicked for a valid trace", &p.msg));
            }
            return;
        },
    };
    if exhaustible {
        st.count("proofs.f62_cubic");
    }
    let acc = AcceptableOptions::MinConjecturedSecurity(0);
    let check = |st: &mut State, what: &str, p: Proof| match stark::verify_proof(fd, hs, &shape, &inst.values, p, &acc, false) {
        Ok(Ok(())) => true,
        Ok(Err(e)) => {
            if exhaustible && wfv::report::is_coin_exhaustion(&e) {
                st.count("outside_claim.coin_exhausted");
            } else {
                st.violation(format!("honest-proof-rejected:{what}:{}{tag}[{fsig}]", norm(&e)), detail(what, &e));
            }
            false
        },
        Err(p) => {
            st.violation(format!("verify-panic:{what}:{}{tag}[{fsig}]", p.sig), detail(what, &p.msg));
            false
        },
    };
    if !check(st, "direct", proof.clone()) {
        return;
    }
    let bytes = proof.to_bytes();
    match Proof::from_bytes(&bytes) {
        Ok(p2) => {
            if p2 != proof {
                st.violation("proof-roundtrip-differs", detail("from_bytes(to_bytes(p)) != p", ""));
            }
            check(st, "after-roundtrip", p2);
        },
        Err(e) => st.violation(format!("proof-not-decodable:{}[{fsig}]", norm(&format!("{e}"))), detail("honest proof cannot be parsed back", &format!("{e}"))),
    }
    if thorough || i % 16 == 0 {
        // the other byte sources
        let mut cur = Cursor::new(&bytes);
        if Proof::read_from(&mut cur).map(|p| p != proof).unwrap_or(true) {
            st.violation("proof-roundtrip:Cursor", detail("", ""));
        }
        let mut src = ChunkedSource::new(bytes.clone(), Schedule::random(rng, false));
        let mut ad = ReadAdapter::new(&mut src);
        if Proof::read_from(&mut ad).map(|p| p != proof).unwrap_or(true) {
            st.violation("proof-roundtrip:ReadAdapter", detail("", ""));
        }
        st.count("roundtrip.other_readers");
    }
    // the security policy end to end: thresholds around the proof's own level
    if i % 8 == 0 {
        let lvl = match hs {
            Hs::Blake3_192 => proof.security_level::<winter_crypto::hashers::Blake3_192<winter_math::fields::f64::BaseElement>>(true),
            Hs::Rp62_248 => proof.security_level::<winter_crypto::hashers::Rp62_248>(true),
            _ => proof.security_level::<winter_crypto::hashers::Blake3_256<winter_math::fields::f64::BaseElement>>(true),
        };
        let ok = stark::verify_proof(fd, hs, &shape, &inst.values, proof.clone(), &AcceptableOptions::MinConjecturedSecurity(lvl), false);
        let bad = stark::verify_proof(fd, hs, &shape, &inst.values, proof.clone(), &AcceptableOptions::MinConjecturedSecurity(lvl + 1), false);
        if !matches!(ok, Ok(Ok(()))) || !matches!(bad, Ok(Err(_))) {
            st.violation("security-policy-end-to-end", detail("threshold level / level+1", &format!("level={lvl} at-level={ok:?} above={bad:?}")));
        }
        let set_ok = stark::verify_proof(fd, hs, &shape, &inst.values, proof.clone(), &AcceptableOptions::OptionSet(vec![options.clone()]), false);
        let set_bad = stark::verify_proof(fd, hs, &shape, &inst.values, proof.clone(), &AcceptableOptions::OptionSet(vec![]), false);
        if !matches!(set_ok, Ok(Ok(()))) || !matches!(set_bad, Ok(Err(_))) {
            st.violation("option-set-policy-end-to-end", detail("", ""));
        }
        st.count("policy.end_to_end");
    }
    st.count(&format!("accepted.{fd:?}.{hs:?}"));
    st.count(&format!("ext.{ext:?}"));
    st.count(&format!("class.{class}"));
    for f in &feats {
        st.count(&format!("feature.{f}"));
    }
    if kind != TraceKind::Random {
        st.count("feature.degenerate-trace");
    }
    st.add("proof_bytes", bytes.len() as u64);
    st.distinct.insert(wfv::fnv(format!("{fd:?}{hs:?}{ext:?}{:?}{:?}{i}", shape.encode(), options).as_bytes()));
    st.sample(class, || detail("sample", ""));
    let _ = run;
}

fn main() {
    let run = Run::start("C01");
    let thorough = !run.quick();
    let n = run.size(20_000, 1_500_000);
    run.par("cases", n, |i, rng, st| case(&run, i, rng, st, thorough));
    // the exclusion of coin exhaustion must stay the rare event the property describes: about 1.4e-7 per draw,
    // some 10^2 draws per proof => well below 1e-4 per proof of the 62-bit field with cubic extension
    let (ex, cubic) = (run.counter("outside_claim.coin_exhausted"), run.counter("proofs.f62_cubic") + run.counter("outside_claim.coin_exhausted"));
    run.seq("coin-exhaustion-rate", 1, |_, _, st| {
        if ex > 3 + cubic / 2_000 {
            st.violation("coin-exhaustion-far-above-the-documented-rate", J::obj(vec![("runs_with_exhausted_coin", J::i(ex as usize)), ("proofs_over_f62_cubic", J::i(cubic as usize))]));
        }
    });
    let mut require = vec![("policy.end_to_end".to_string(), 50), ("roundtrip.other_readers".to_string(), 50)];
    for (fd, hs) in COMBOS {
        require.push((format!("accepted.{fd:?}.{hs:?}"), 20));
    }
    for e in ["None", "Quadratic", "Cubic"] {
        require.push((format!("ext.{e}"), 100));
    }
    for c in ["width-boundary", "every-exemption-count", "option-boundary", "assertion-boundary", "aux-segment", "random"] {
        require.push((format!("class.{c}"), 5));
    }
    run.finish(Finish {
        rule: "boundary shapes first (widths 1,2,7,8,9,16,17,254,255; every exemption count for n=8,16,32 with degrees 1..3; all-zero / all-one / constant-column traces; option boundaries: 1/254/255 queries, blowup 2/128, grinding 16, folding 16, remainder degree 0/255; sequences of 2..128 values with zero and non-zero first step, periodic assertions, periodic columns of several cycle lengths; auxiliary segments with 0/1/3 random elements, with and without Lagrange kernel), each under all 12 field x hasher combinations and 3 extension degrees; then random shapes (1..40 columns, n=8..2048, degrees 1..blowup+1, 0..3 periodic columns, 1..max exemptions, random assertions, aux segments) with random admissible options. Each case: reference validity predicate says valid -> prove must succeed, verify must accept directly and after Proof byte round trip (Cursor and ReadAdapter on a sample), decoded proof equals the original; security thresholds level/level+1 and option sets end to end on a sample. distinct = distinct (field, hasher, extension, shape, options)".into(),
        assumptions: vec![
            "build profile: release with overflow checks, debug assertions off (the debug-only degree validation of the evaluator is not part of the user-visible contract)".into(),
            "runs where the coin reports FailedToDrawFieldElement are outside the claim and counted".into(),
        ],
        exhaustive: false,
        require,
        extra: vec![("concurrent_feature".into(), J::B(cfg!(feature = "concurrent")))],
    });
}
