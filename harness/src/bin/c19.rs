//! C19 Public coin contract: random operation histories are applied in lock-step to the real coin
//! and to the executable coin model; every output must agree. Pairs of histories that differ in
//! exactly one datum must give different subsequent field-element draws; equal histories on
//! independent instances must give equal outputs.
use winter_crypto::{
    hashers::{Blake3_192, Blake3_256, Rp62_248, Rp64_256, RpJive64_256, Sha3_256},
    DefaultRandomCoin, Digest, ElementHasher, RandomCoin,
};
use winter_math::{
    fields::{f128, f62, f64, CubeExtension, QuadExtension},
    FieldElement,
};
use wfv::{coin::CoinModel, fields::Fld, gen::*, hex, Finish, Rng, Run, State, J};

#[derive(Clone, Debug)]
enum Op {
    Reseed(Vec<u8>),
    Draw(usize),
    Ints(usize, usize, u64),
    Clz(u64),
}

fn nonce<B: Fld>(rng: &mut Rng) -> u64 {
    let p = B::FP.p as u64;
    match rng.below(8) {
        0 => 0,
        1 => 1,
        2 => p.wrapping_sub(1),
        3 => p,
        4 => u64::MAX,
        _ => rng.u64(),
    }
}

fn gen_op<B: Fld>(rng: &mut Rng) -> Op {
    match rng.below(10) {
        0 | 1 => {
            let l = rng_len(rng);
            Op::Reseed(rng.bytes(l))
        },
        2 | 3 | 4 => Op::Draw(1),
        5 => Op::Draw(2),
        6 => Op::Draw(3),
        7 => {
            let log = rng.range(1, 32);
            let domain = 1usize << log;
            let n = match rng.below(4) {
                0 => 1,
                1 => 255.min(domain - 1),
                _ => rng.range(1, 255.min(domain - 1)),
            };
            Op::Ints(n, domain, nonce::<B>(rng))
        },
        _ => Op::Clz(nonce::<B>(rng)),
    }
}
fn rng_len(rng: &mut Rng) -> usize {
    rng.usize(40)
}

#[derive(Clone, Debug, PartialEq)]
enum Out {
    None,
    El(Option<Vec<u128>>),
    Ints(Vec<usize>),
    Clz(u32),
}

fn coeffs<B: Fld, E: FieldElement<BaseField = B>>(e: &E) -> Vec<u128> {
    res_vec::<B, E>(e)
}

/// applies one op to the real coin; the second value reports a non-canonical drawn element
fn apply_real<B: Fld, H: ElementHasher<BaseField = B>>(c: &mut DefaultRandomCoin<H>, op: &Op) -> (Out, bool) {
    fn canon<B: Fld, E: FieldElement<BaseField = B>>(e: &E) -> bool {
        let ok_range = E::slice_as_base_elements(core::slice::from_ref(e)).iter().all(|c| c.raw() < B::RAW_LIMIT);
        let mut bytes = Vec::new();
        for c in res_vec::<B, E>(e) {
            bytes.extend_from_slice(&c.to_le_bytes()[..B::ELEMENT_BYTES]);
        }
        ok_range && e.to_bytes() == bytes && E::read_from_bytes(&bytes).map(|x| x == *e).unwrap_or(false)
    }
    match op {
        Op::Reseed(d) => {
            c.reseed(H::hash(d));
            (Out::None, true)
        },
        Op::Draw(1) => match c.draw::<B>() {
            Ok(e) => (Out::El(Some(coeffs::<B, B>(&e))), canon::<B, B>(&e)),
            Err(_) => (Out::El(None), true),
        },
        Op::Draw(2) => match c.draw::<QuadExtension<B>>() {
            Ok(e) => (Out::El(Some(coeffs::<B, QuadExtension<B>>(&e))), canon::<B, QuadExtension<B>>(&e)),
            Err(_) => (Out::El(None), true),
        },
        Op::Draw(_) => match c.draw::<CubeExtension<B>>() {
            Ok(e) => (Out::El(Some(coeffs::<B, CubeExtension<B>>(&e))), canon::<B, CubeExtension<B>>(&e)),
            Err(_) => (Out::El(None), true),
        },
        Op::Ints(n, d, nonce) => match c.draw_integers(*n, *d, *nonce) {
            Ok(v) => (Out::Ints(v), true),
            Err(_) => (Out::Ints(vec![]), true),
        },
        Op::Clz(v) => (Out::Clz(c.check_leading_zeros(*v)), true),
    }
}

fn apply_model<B: Fld, H: ElementHasher<BaseField = B>>(m: &mut CoinModel<H>, op: &Op) -> Out {
    match op {
        Op::Reseed(d) => {
            m.reseed(H::hash(d));
            Out::None
        },
        Op::Draw(k) => Out::El(m.draw(*k)),
        Op::Ints(n, d, nonce) => Out::Ints(m.draw_integers(*n, *d, *nonce)),
        Op::Clz(v) => Out::Clz(m.leading_zeros(*v)),
    }
}

fn drive<B: Fld, H: ElementHasher<BaseField = B>>(run: &Run, hname: &str, cases: u64) {
    let tag = format!("{hname}<{}>", B::NAME);
    let cube_ok = CubeExtension::<B>::is_supported();
    run.par(&tag, cases, |i, rng, st| {
        let seed: Vec<B> = {
            let n = if i < 21 { i as usize } else { rng.usize(21) };
            rand_vec::<B, B>(rng, n)
        };
        let len = rng.range(1, 64);
        let mut ops: Vec<Op> = (0..len).map(|_| gen_op::<B>(rng)).collect();
        if !cube_ok {
            for o in ops.iter_mut() {
                if matches!(o, Op::Draw(3)) {
                    *o = Op::Draw(2);
                }
            }
        }
        // (1) lock-step with the model, and with a second independent instance (equal histories)
        let mut real = DefaultRandomCoin::<H>::new(&seed);
        let mut twin = DefaultRandomCoin::<H>::new(&seed);
        let mut model = CoinModel::<H>::new(&seed);
        let mut outs = Vec::new();
        for (k, op) in ops.iter().enumerate() {
            let (o, canonical) = apply_real::<B, H>(&mut real, op);
            let (o2, _) = apply_real::<B, H>(&mut twin, op);
            let om = apply_model::<B, H>(&mut model, op);
            let detail = || J::obj(vec![("coin", J::s(&tag)), ("seed_elements", J::i(seed.len())), ("step", J::i(k)), ("op", J::s(format!("{op:?}"))), ("history_len", J::i(len))]);
            if o != om {
                st.violation(format!("{tag}:model-mismatch:{}", opname(op)), J::obj(vec![("case", detail()), ("real", J::s(format!("{o:?}"))), ("model", J::s(format!("{om:?}")))]));
            }
            if o != o2 {
                st.violation(format!("{tag}:equal-histories-differ:{}", opname(op)), detail());
            }
            if !canonical {
                st.violation(format!("{tag}:non-canonical-draw"), detail());
            }
            if let (Op::Ints(n, d, _), Out::Ints(v)) = (op, &o) {
                if v.len() != *n || v.iter().any(|x| x >= d) {
                    st.violation(format!("{tag}:draw_integers:count-or-range"), detail());
                }
                st.count(&format!("{tag}.draw_integers"));
            }
            if let Out::El(None) = o {
                st.count(&format!("{tag}.draw_exhausted_1000_attempts"));
            }
            st.count(&format!("{tag}.op.{}", opname(op)));
            outs.push(o);
            st.evals += 1;
        }
        // (2) histories that differ in exactly one datum: the next >= 62-bit draw must differ
        let probe = |c: &mut DefaultRandomCoin<H>| c.draw::<B>().ok().map(|e| e.res());
        let run_hist = |seed: &[B], ops: &[Op]| {
            let mut c = DefaultRandomCoin::<H>::new(seed);
            for op in ops {
                apply_real::<B, H>(&mut c, op);
            }
            probe(&mut c)
        };
        let base = run_hist(&seed, &ops);
        let diff = |what: &str, other: Option<u128>, st: &mut State| {
            if other == base && base.is_some() {
                st.violation(format!("{tag}:difference-not-propagated:{what}"), J::obj(vec![("seed_elements", J::i(seed.len())), ("ops", J::s(format!("{:?}", &ops[..ops.len().min(6)])))]));
            }
            st.count(&format!("{tag}.difference_pairs"));
            st.evals += 1;
        };
        // seed element changed / appended / removed
        if !seed.is_empty() {
            let mut s2 = seed.clone();
            let k = rng.usize(s2.len());
            s2[k] += B::ONE;
            diff("seed-element", run_hist(&s2, &ops), st);
            let mut s3 = seed.clone();
            s3.pop();
            diff("seed-shorter", run_hist(&s3, &ops), st);
        }
        let mut s4 = seed.clone();
        s4.push(B::ZERO);
        diff("seed-zero-appended", run_hist(&s4, &ops), st);
        // one op changed
        let k = rng.usize(ops.len());
        let mut o2 = ops.clone();
        match &ops[k] {
            Op::Reseed(d) => {
                let mut d2 = d.clone();
                d2.push(0);
                o2[k] = Op::Reseed(d2);
                diff("reseed-data", run_hist(&seed, &o2), st);
            },
            Op::Ints(n, d, nonce) => {
                o2[k] = Op::Ints(*n, *d, nonce.wrapping_add(1));
                diff("nonce", run_hist(&seed, &o2), st);
            },
            Op::Draw(_) => {
                // one extra earlier draw
                o2.insert(k, Op::Draw(1));
                // unless a later reseed / draw_integers resets the counter, the probe must change
                let resets = ops[k..].iter().any(|o| matches!(o, Op::Reseed(_) | Op::Ints(..)));
                // with rejection sampling (62-bit field: 3 of 4 candidates are rejected) a later draw of
                // a wider type may skip past the counter values the extra draw consumed, so the claim
                // is only checked where every draw consumes one counter value with overwhelming
                // probability, or where all later draws have the type of the inserted one
                let skipping = B::NAME == "f62" && ops[k..].iter().any(|o| matches!(o, Op::Draw(d) if *d > 1));
                if !resets && !skipping {
                    diff("number-of-earlier-draws", run_hist(&seed, &o2), st);
                }
            },
            Op::Clz(_) => {
                // check_leading_zeros is a pure query: removing it must NOT change anything
                o2.remove(k);
                if run_hist(&seed, &o2) != base {
                    st.violation(format!("{tag}:check_leading_zeros-has-side-effect"), J::Null);
                }
            },
        }
        // nonce aliasing: nonces that differ by a field modulus (so that they agree as field
        // elements), only in their upper half, or in a single bit must still lead to different coins
        {
            const P62: u64 = 4611624995532046337;
            const P64: u64 = 18446744069414584321;
            let a = match rng.below(5) {
                0 => 0,
                1 => 1,
                2 => rng.u64() >> 33,
                3 => rng.u64() % P62,
                _ => rng.u64(),
            };
            let (b, how) = match rng.below(7) {
                0 => (a.wrapping_add(P62), "plus-f62-modulus"),
                1 => (a.wrapping_add(P64), "plus-f64-modulus"),
                2 => (a ^ (1 << 63), "top-bit"),
                3 => (a ^ (1 << 32), "bit-32"),
                4 => (a ^ (1u64 << rng.range(0, 63)), "single-bit"),
                5 => (a.wrapping_add(P62.wrapping_mul(rng.range(1, 3) as u64)), "plus-multiple-of-f62-modulus"),
                _ => (a.wrapping_sub(P64), "minus-f64-modulus"),
            };
            if a != b {
                let d = 1usize << rng.range(8, 32);
                let mut oa = ops.clone();
                oa.push(Op::Ints(4, d, a));
                let mut ob = ops.clone();
                ob.push(Op::Ints(4, d, b));
                let (ra, rb) = (run_hist(&seed, &oa), run_hist(&seed, &ob));
                if ra == rb && ra.is_some() {
                    st.violation(format!("{tag}:difference-not-propagated:nonce-alias:{how}"), J::obj(vec![("nonce_a", J::s(a.to_string())), ("nonce_b", J::s(b.to_string())), ("seed_elements", J::i(seed.len()))]));
                }
                // the proof-of-work measure is taken on the digests merge_with_int(seed, nonce)
                let da = H::merge_with_int(model.seed, a).as_bytes();
                let db = H::merge_with_int(model.seed, b).as_bytes();
                if da == db {
                    st.violation(format!("{tag}:nonce-alias-same-pow-digest:{how}"), J::obj(vec![("nonce_a", J::s(a.to_string())), ("nonce_b", J::s(b.to_string()))]));
                }
                st.count(&format!("{tag}.nonce_alias_pairs"));
                st.count(&format!("nonce_alias.{how}"));
                st.evals += 1;
            }
        }
        // an extra draw at the end always changes the next draw
        let mut o3 = ops.clone();
        o3.push(Op::Draw(1));
        diff("extra-final-draw", run_hist(&seed, &o3), st);
        st.case(wfv::fnv(format!("{tag}{i}{:?}", ops).as_bytes()), len >= 2);
        st.sample(&tag, || J::obj(vec![("coin", J::s(&tag)), ("seed_elements", J::i(seed.len())), ("history", J::A(ops.iter().take(8).map(|o| J::s(format!("{o:?}"))).collect())), ("first_outputs", J::s(format!("{:?}", &outs[..outs.len().min(3)])))]));
    });
    // proof-of-work measure: the digest that check_leading_zeros(nonce) inspects is the seed
    // that draw_integers(.., nonce) installs
    run.par(&format!("{tag}-pow"), cases / 4 + 1, |_i, rng, st| {
        let seed = rand_vec::<B, B>(rng, 4);
        let c = DefaultRandomCoin::<H>::new(&seed);
        let m = CoinModel::<H>::new(&seed);
        // search like the prover does
        let want = rng.range(1, 10) as u32;
        let nonce = (1u64..).find(|n| c.check_leading_zeros(*n) >= want).unwrap();
        let d = H::merge_with_int(m.seed, nonce).as_bytes();
        let measure = u64::from_le_bytes(d[..8].try_into().unwrap()).trailing_zeros();
        if measure < want || measure != c.check_leading_zeros(nonce) {
            st.violation(format!("{tag}:pow-measure"), J::obj(vec![("nonce", J::i(nonce)), ("wanted", J::i(want)), ("measure", J::i(measure)), ("digest", J::s(hex(&d)))]));
        }
        // the query positions drawn with this nonce come from exactly that digest
        let mut c2 = DefaultRandomCoin::<H>::new(&seed);
        let got = c2.draw_integers(8, 1 << 20, nonce).unwrap_or_default();
        let mut m2 = CoinModel::<H>::from_digest(H::merge_with_int(m.seed, nonce));
        m2.ctr = 0;
        let mut exp = Vec::new();
        for _ in 0..8 {
            m2.ctr += 1;
            let b = H::merge_with_int(m2.seed, m2.ctr).as_bytes();
            exp.push((u64::from_le_bytes(b[..8].try_into().unwrap()) & ((1 << 20) - 1)) as usize);
        }
        if got != exp {
            st.violation(format!("{tag}:positions-not-bound-to-pow-digest"), J::i(nonce));
        }
        st.evals += 1;
        st.distinct.insert(wfv::fnv(format!("{tag}pow{nonce}{:?}", res_vec::<B, B>(&seed[0])).as_bytes()));
        st.count(&format!("{tag}.pow_searches"));
    });
}

fn opname(op: &Op) -> &'static str {
    match op {
        Op::Reseed(_) => "reseed",
        Op::Draw(1) => "draw_base",
        Op::Draw(2) => "draw_quad",
        Op::Draw(_) => "draw_cube",
        Op::Ints(..) => "draw_integers",
        Op::Clz(_) => "check_leading_zeros",
    }
}

fn main() {
    let run = Run::start("C19");
    type B64 = f64::BaseElement;
    type B62 = f62::BaseElement;
    type B128 = f128::BaseElement;
    let n = run.size(4_000, 400_000);
    drive::<B64, Blake3_256<B64>>(&run, "Blake3_256", n);
    drive::<B62, Blake3_256<B62>>(&run, "Blake3_256", n);
    drive::<B128, Blake3_256<B128>>(&run, "Blake3_256", n);
    drive::<B64, Blake3_192<B64>>(&run, "Blake3_192", n);
    drive::<B62, Blake3_192<B62>>(&run, "Blake3_192", n);
    drive::<B128, Blake3_192<B128>>(&run, "Blake3_192", n);
    drive::<B64, Sha3_256<B64>>(&run, "Sha3_256", n);
    drive::<B62, Sha3_256<B62>>(&run, "Sha3_256", n / 2);
    drive::<B128, Sha3_256<B128>>(&run, "Sha3_256", n / 2);
    drive::<B64, Rp64_256>(&run, "Rp64_256", n / 4);
    drive::<B64, RpJive64_256>(&run, "RpJive64_256", n / 4);
    drive::<B62, Rp62_248>(&run, "Rp62_248", n / 4);
    let mut require = Vec::new();
    for t in ["Blake3_256<f64>", "Blake3_256<f62>", "Blake3_256<f128>", "Blake3_192<f64>", "Blake3_192<f62>", "Blake3_192<f128>", "Sha3_256<f64>", "Sha3_256<f62>", "Sha3_256<f128>", "Rp64_256<f64>", "RpJive64_256<f64>", "Rp62_248<f62>"] {
        for op in ["reseed", "draw_base", "draw_quad", "draw_integers", "check_leading_zeros"] {
            require.push((format!("{t}.op.{op}"), 100));
        }
        require.push((format!("{t}.difference_pairs"), 100));
        require.push((format!("{t}.pow_searches"), 10));
    }
    for t in ["Blake3_256<f64>", "Blake3_256<f62>", "Rp64_256<f64>", "Rp62_248<f62>"] {
        require.push((format!("{t}.op.draw_cube"), 100));
    }
    run.finish(Finish {
        rule: "random histories of 1..64 operations {reseed, draw base/quadratic/cubic, draw_integers(1..255 values, domain 2^1..2^32, nonce in {0,1,p-1,p,2^64-1,random}), check_leading_zeros} after new(seed of 0..20 elements), applied in lock-step to DefaultRandomCoin, to a second instance and to the executable model; every output compared; drawn elements checked canonical; then single-datum differences (seed element, seed length, reseed data, nonce, number of earlier draws, extra draw) must change the next base-field draw (>= 62 bits); check_leading_zeros must be side-effect free; proof-of-work searches: the measure equals trailing zeros of merge_with_int(seed, nonce) and the positions are derived from exactly that digest. All six hashers with all their fields, incl. 24-byte digests with 32-byte elements. non-trivial = history of >= 2 ops; distinct = distinct history".into(),
        assumptions: vec![
            "model: seed=H(elements); reseed: seed=merge(seed,data), ctr=0; next: ctr+=1, merge_with_int(seed,ctr); rejection sampling on the first ELEMENT_BYTES (<= 1000 attempts); integers = first 8 bytes LE masked to the domain; nonce absorbed with merge_with_int".into(),
            "difference tests compare >= 62-bit draws: accidental equality has probability <= 2^-62".into(),
        ],
        exhaustive: false,
        require,
        extra: vec![],
    });
}
