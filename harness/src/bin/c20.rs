//! C20 Polynomial arithmetic and batch utilities: every routine of winter_math::polynom and the
//! batch utilities is run on generated inputs and its defining identity is checked with
//! independently written schoolbook routines.
use winter_math::{
    add_in_place, batch_inversion,
    fields::{f128, f62, f64, CubeExtension, QuadExtension},
    get_power_series, get_power_series_with_offset, mul_acc, polynom, ExtensionOf, FieldElement,
};
use wfv::{
    fields::Fld,
    gen::*,
    Finish, Rng, Run, State, J,
};

/// polynomial with `n` coefficients, optionally with zero top / bottom coefficients
fn rand_poly<B: Fld, E: FieldElement<BaseField = B>>(rng: &mut Rng, n: usize) -> Vec<E> {
    let mut p = rand_vec::<B, E>(rng, n);
    if n > 0 {
        match rng.below(6) {
            0 => {
                let k = rng.range(1, n.min(3));
                for x in p[n - k..].iter_mut() {
                    *x = E::ZERO;
                }
            },
            1 => {
                let k = rng.range(1, n.min(3));
                for x in p[..k].iter_mut() {
                    *x = E::ZERO;
                }
            },
            2 => {
                if let Some(x) = p.last_mut() {
                    *x = E::ONE;
                }
            },
            _ => {},
        }
    }
    p
}

fn fail<B: Fld, E: FieldElement<BaseField = B>>(st: &mut State, what: &str, detail: Vec<(&str, String)>) {
    let t = type_name::<B, E>();
    let mut d = vec![("type", J::s(&t)), ("identity", J::s(what))];
    for (k, v) in detail {
        d.push((k, J::s(v)));
    }
    st.violation(format!("{t}:{what}"), J::obj(d));
}

fn arith<B: Fld, E: FieldElement<BaseField = B>>(rng: &mut Rng, st: &mut State) {
    let la = rng.range(1, 64);
    let lb = rng.range(1, 64);
    let a = rand_poly::<B, E>(rng, la);
    let b = rand_poly::<B, E>(rng, lb);
    let k = rand_el::<B, E>(rng);
    let ctx = |a: &[E], b: &[E]| vec![("a", show_vec::<B, E>(a, 8)), ("b", show_vec::<B, E>(b, 8))];
    let r = polynom::add(&a, &b);
    if r != p_add(&a, &b) {
        fail::<B, E>(st, "add", ctx(&a, &b));
    }
    let r = polynom::sub(&a, &b);
    if r != p_sub(&a, &b) {
        fail::<B, E>(st, "sub", ctx(&a, &b));
    }
    let r = polynom::mul(&a, &b);
    if r != p_mul(&a, &b) {
        fail::<B, E>(st, "mul", ctx(&a, &b));
    }
    let r = polynom::mul_by_scalar(&a, k);
    if r != a.iter().map(|x| *x * k).collect::<Vec<_>>() {
        fail::<B, E>(st, "mul_by_scalar", ctx(&a, &[k]));
    }
    // degree_of / remove_leading_zeros
    let t = p_trim(&a);
    if polynom::degree_of(&a) != t.len().saturating_sub(1) || polynom::remove_leading_zeros(&a) != t {
        fail::<B, E>(st, "degree_of/remove_leading_zeros", ctx(&a, &[]));
    }
    // eval / eval_many against explicit powers; base coefficients with extension point as well
    let x = rand_el::<B, E>(rng);
    if polynom::eval(&a, x) != p_eval(&a, x) {
        fail::<B, E>(st, "eval", ctx(&a, &[x]));
    }
    let nx = rng.range(0, 6);
    let xs = rand_vec::<B, E>(rng, nx);
    if polynom::eval_many(&a, &xs) != xs.iter().map(|x| p_eval(&a, *x)).collect::<Vec<_>>() {
        fail::<B, E>(st, "eval_many", ctx(&a, &xs));
    }
    let ab: Vec<B> = rand_vec::<B, B>(rng, la);
    if polynom::eval::<B, E>(&ab, x) != p_eval::<B, E>(&ab, x) {
        fail::<B, E>(st, "eval-base-coeffs", ctx(&[], &[x]));
    }
    st.add(&format!("{}.arith", type_name::<B, E>()), 8);
    st.evals += 8;
}

fn division<B: Fld, E: FieldElement<BaseField = B>>(rng: &mut Rng, st: &mut State) {
    // long division: deg a >= deg b, b != 0
    let lb = rng.range(1, 24);
    let mut b = rand_poly::<B, E>(rng, lb);
    if p_deg(&b) < 0 {
        b[0] = rand_nonzero::<B, E>(rng);
    }
    let la = rng.range(lb, 64);
    let mut a = rand_poly::<B, E>(rng, la);
    if p_deg(&a) < p_deg(&b) {
        let n = a.len();
        a[n - 1] = rand_nonzero::<B, E>(rng);
    }
    // exact multiples too
    if rng.chance(1, 4) {
        let nq = rng.range(1, 20);
        let q = rand_poly::<B, E>(rng, nq);
        if p_deg(&q) >= 0 {
            a = p_mul(&q, &p_trim(&b));
        }
    }
    let q = polynom::div(&a, &b);
    let rem = p_sub(&a, &p_mul(&q, &b));
    if p_deg(&rem) >= p_deg(&b).max(0) && !(p_deg(&b) == 0 && p_deg(&rem) < 0) {
        fail::<B, E>(st, "div:deg(a-q*b)<deg(b)", vec![("a", show_vec::<B, E>(&a, 10)), ("b", show_vec::<B, E>(&b, 10)), ("q", show_vec::<B, E>(&q, 10))]);
    }
    if p_deg(&b) == 0 && p_deg(&rem) >= 0 {
        fail::<B, E>(st, "div:constant-divisor", vec![("a", show_vec::<B, E>(&a, 10)), ("b", show_vec::<B, E>(&b, 10))]);
    }
    st.count(&format!("{}.div", type_name::<B, E>()));

    // synthetic division by x^a - b
    let deg_a = rng.range(1, 8);
    let lp = rng.range(deg_a + 1, 70);
    let p = rand_poly::<B, E>(rng, lp);
    let c = match rng.below(4) {
        0 => E::ONE,
        1 => -E::ONE,
        _ => rand_nonzero::<B, E>(rng),
    };
    let q = polynom::syn_div(&p, deg_a, c);
    let mut q2 = p.clone();
    polynom::syn_div_in_place(&mut q2, deg_a, c);
    let mut divisor = vec![E::ZERO; deg_a + 1];
    divisor[0] = -c;
    divisor[deg_a] = E::ONE;
    let rem = p_sub(&p, &p_mul(&q, &divisor));
    let detail = || vec![("p", show_vec::<B, E>(&p, 12)), ("a", deg_a.to_string()), ("b", show::<B, E>(&c)), ("q", show_vec::<B, E>(&q, 12))];
    if q != q2 {
        fail::<B, E>(st, "syn_div==syn_div_in_place", detail());
    }
    if q.len() != p.len() || q[p.len() - deg_a..].iter().any(|x| *x != E::ZERO) {
        fail::<B, E>(st, "syn_div:result-shape", detail());
    }
    if p_deg(&rem) >= deg_a as isize {
        fail::<B, E>(st, "syn_div:p=q*(x^a-b)+r,deg(r)<a", detail());
    }
    st.count(&format!("{}.syn_div.a{}", type_name::<B, E>(), if deg_a == 1 { "1" } else { "ge2" }));
    if c == E::ONE && deg_a >= 2 {
        st.count(&format!("{}.syn_div.b1_age2", type_name::<B, E>()));
    }

    // division by a list of roots == repeated division by (x - root)
    let m = rng.range(1, 6);
    let roots = rand_vec::<B, E>(rng, m);
    let lp = rng.range(m + 1, 40);
    let mut p = rand_poly::<B, E>(rng, lp);
    if rng.bool() {
        // make it divide evenly
        p = p_mul(&p[..lp - m], &polynom::poly_from_roots(&roots));
    }
    let mut q = p.clone();
    polynom::syn_div_roots_in_place(&mut q, &roots);
    let mut q_ref = p.clone();
    for r in &roots {
        if *r == E::ZERO {
            // x - 0: shift down
            q_ref.remove(0);
            q_ref.push(E::ZERO);
        } else {
            q_ref = polynom::syn_div(&q_ref, 1, *r);
        }
    }
    let prod = roots.iter().fold(vec![E::ONE], |acc, r| p_mul(&acc, &[-*r, E::ONE]));
    let rem = p_sub(&p, &p_mul(&q, &prod));
    if q != q_ref || p_deg(&rem) >= m as isize {
        fail::<B, E>(st, "syn_div_roots_in_place", vec![("p", show_vec::<B, E>(&p, 12)), ("roots", show_vec::<B, E>(&roots, 8))]);
    }
    st.count(&format!("{}.syn_div_roots", type_name::<B, E>()));
    st.evals += 3;
}

fn interpolation<B: Fld, E: FieldElement<BaseField = B>>(rng: &mut Rng, st: &mut State) {
    let n = rng.range(1, 32);
    let xs = distinct_points::<B, E>(rng, n);
    // values of a polynomial of chosen (possibly low) degree, or arbitrary values
    let ys: Vec<E> = if rng.bool() {
        let d = rng.range(0, n);
        let p = rand_vec::<B, E>(rng, d);
        xs.iter().map(|x| p_eval(&p, *x)).collect()
    } else {
        rand_vec::<B, E>(rng, n)
    };
    for remove in [false, true] {
        let p = polynom::interpolate(&xs, &ys, remove);
        let ok_len = if remove { p.len() <= n && p.last().map(|c| *c != E::ZERO).unwrap_or(true) } else { p.len() == n };
        let ok_val = xs.iter().zip(ys.iter()).all(|(x, y)| p_eval(&p, *x) == *y);
        if !ok_len || !ok_val {
            fail::<B, E>(st, "interpolate", vec![("xs", show_vec::<B, E>(&xs, 8)), ("ys", show_vec::<B, E>(&ys, 8)), ("remove_leading_zeros", remove.to_string())]);
        }
    }
    fn batch<B: Fld, E: FieldElement<BaseField = B>, const N: usize>(rng: &mut Rng, st: &mut State) {
        let nb = rng.range(1, 5);
        let xs: Vec<[E; N]> = (0..nb).map(|_| <[E; N]>::try_from(distinct_points::<B, E>(rng, N)).unwrap()).collect();
        let ys: Vec<[E; N]> = (0..nb).map(|_| <[E; N]>::try_from(rand_vec::<B, E>(rng, N)).unwrap()).collect();
        let ps = polynom::interpolate_batch(&xs, &ys);
        let mut ok = ps.len() == nb;
        for i in 0..nb.min(ps.len()) {
            ok &= (0..N).all(|j| p_eval(&ps[i], xs[i][j]) == ys[i][j]);
            ok &= ps[i].to_vec() == polynom::interpolate(&xs[i], &ys[i], false);
        }
        if !ok {
            fail::<B, E>(st, &format!("interpolate_batch<{N}>"), vec![("xs0", show_vec::<B, E>(&xs[0], 8))]);
        }
    }
    match rng.below(5) {
        0 => batch::<B, E, 1>(rng, st),
        1 => batch::<B, E, 2>(rng, st),
        2 => batch::<B, E, 3>(rng, st),
        3 => batch::<B, E, 8>(rng, st),
        _ => batch::<B, E, 16>(rng, st),
    }
    // poly_from_roots
    let m = rng.range(0, 20);
    let mut roots = rand_vec::<B, E>(rng, m);
    if m > 1 && rng.bool() {
        roots[1] = roots[0]; // repeated root
    }
    let p = polynom::poly_from_roots(&roots);
    let prod = roots.iter().fold(vec![E::ONE], |acc, r| p_mul(&acc, &[-*r, E::ONE]));
    if p != prod {
        fail::<B, E>(st, "poly_from_roots", vec![("roots", show_vec::<B, E>(&roots, 8))]);
    }
    st.count(&format!("{}.interpolate", type_name::<B, E>()));
    st.evals += 4;
}

const LENS: [usize; 14] = [0, 1, 2, 3, 127, 128, 129, 255, 1023, 1024, 1025, 2048, 4095, 4096];

fn utilities<B: Fld, E: FieldElement<BaseField = B> + ExtensionOf<B>>(rng: &mut Rng, st: &mut State, i: u64) {
    let t = type_name::<B, E>();
    let n = if (i as usize) < 2 * LENS.len() { LENS[i as usize % LENS.len()] } else { [rng.range(0, 300), rng.range(1000, 1100), rng.range(0, 5000)][rng.usize(3)] };
    // power series
    let b = rand_el::<B, E>(rng);
    let s = rand_el::<B, E>(rng);
    let ps = get_power_series(b, n);
    let pso = get_power_series_with_offset(b, s, n);
    let mut acc = E::ONE;
    let mut ok = ps.len() == n && pso.len() == n;
    for k in 0..n.min(ps.len()).min(pso.len()) {
        ok &= ps[k] == acc && pso[k] == s * acc;
        acc *= b;
    }
    if !ok {
        fail::<B, E>(st, "get_power_series", vec![("b", show::<B, E>(&b)), ("s", show::<B, E>(&s)), ("n", n.to_string())]);
    }
    // add_in_place / mul_acc
    let a0 = rand_vec::<B, E>(rng, n);
    let bb = rand_vec::<B, E>(rng, n);
    let mut a = a0.clone();
    add_in_place(&mut a, &bb);
    if (0..n).any(|k| a[k] != a0[k] + bb[k]) {
        fail::<B, E>(st, "add_in_place", vec![("n", n.to_string())]);
    }
    let c = rand_el::<B, E>(rng);
    let bbase = rand_vec::<B, B>(rng, n);
    let mut a = a0.clone();
    mul_acc::<B, E>(&mut a, &bbase, c);
    if (0..n).any(|k| a[k] != a0[k] + c.mul_base(bbase[k])) {
        fail::<B, E>(st, "mul_acc", vec![("n", n.to_string()), ("c", show::<B, E>(&c))]);
    }
    // batch inversion with zeros in chosen positions
    let mut v: Vec<E> = (0..n).map(|_| rand_nonzero::<B, E>(rng)).collect();
    let pattern = rng.below(7);
    let mut zeros = Vec::new();
    if n > 0 {
        match pattern {
            0 => {},
            1 => zeros.push(0),
            2 => zeros.push(n - 1),
            3 => {
                let k = rng.range(1, 9);
                zeros.extend((0..n).step_by(k));
            },
            4 => zeros.extend(0..n),
            5 => {
                // zeros around the 1024-element batch borders
                for z in [127usize, 128, 1023, 1024, 1025] {
                    if z < n {
                        zeros.push(z);
                    }
                }
            },
            _ => {
                for _ in 0..rng.range(1, 5) {
                    zeros.push(rng.usize(n));
                }
            },
        }
    }
    for z in &zeros {
        v[*z] = E::ZERO;
    }
    let inv = batch_inversion(&v);
    let mut ok = inv.len() == n;
    for k in 0..n.min(inv.len()) {
        ok &= if v[k] == E::ZERO { inv[k] == E::ZERO } else { v[k] * inv[k] == E::ONE };
    }
    if !ok {
        fail::<B, E>(st, "batch_inversion", vec![("n", n.to_string()), ("zero_pattern", pattern.to_string())]);
    }
    st.count(&format!("{t}.utilities"));
    if n >= 1024 {
        st.count(&format!("{t}.utilities.ge1024"));
    }
    if !zeros.is_empty() {
        st.count(&format!("{t}.batch_inversion_with_zeros"));
    }
    st.evals += 4;
}

fn drive<B: Fld, E: FieldElement<BaseField = B> + ExtensionOf<B>>(run: &Run, n: u64) {
    let t = type_name::<B, E>();
    run.par(&format!("{t}-poly"), n, |i, rng, st| {
        arith::<B, E>(rng, st);
        division::<B, E>(rng, st);
        interpolation::<B, E>(rng, st);
        st.distinct.insert(wfv::fnv(format!("{t}{i}{}", rng.u64()).as_bytes()));
        if st.wants_sample(&t) {
            let p = rand_poly::<B, E>(rng, 5);
            st.sample(&t, || J::obj(vec![("type", J::s(&t)), ("example_polynomial", J::s(show_vec::<B, E>(&p, 5)))]));
        }
    });
    run.par(&format!("{t}-util"), (n / 20).max(2 * LENS.len() as u64), |i, rng, st| {
        utilities::<B, E>(rng, st, i);
        st.distinct.insert(wfv::fnv(format!("{t}u{i}").as_bytes()));
    });
}

fn main() {
    let run = Run::start("C20");
    let n = run.size(20_000, 2_000_000);
    type B64 = f64::BaseElement;
    type B62 = f62::BaseElement;
    type B128 = f128::BaseElement;
    drive::<B64, B64>(&run, n);
    drive::<B62, B62>(&run, n);
    drive::<B128, B128>(&run, n / 2);
    drive::<B64, QuadExtension<B64>>(&run, n / 2);
    drive::<B64, CubeExtension<B64>>(&run, n / 2);
    drive::<B62, QuadExtension<B62>>(&run, n / 4);
    drive::<B62, CubeExtension<B62>>(&run, n / 4);
    drive::<B128, QuadExtension<B128>>(&run, n / 4);
    let mut require = vec![];
    for t in ["f64", "f62", "f128", "f64^2", "f64^3", "f62^2", "f62^3", "f128^2"] {
        for k in ["arith", "div", "syn_div.a1", "syn_div.age2", "syn_div.b1_age2", "syn_div_roots", "interpolate", "utilities", "utilities.ge1024", "batch_inversion_with_zeros"] {
            require.push((format!("{t}.{k}"), 10));
        }
    }
    run.finish(Finish {
        rule: "per case: random polynomials of 1..64 coefficients with zeroed top/bottom coefficients; add/sub/mul/mul_by_scalar vs schoolbook; div: deg(a-q*b)<deg(b); syn_div(_in_place): p=q*(x^a-b)+r, deg r<a, a in 1..8, b in {1,-1,random}; syn_div_roots_in_place vs repeated division; interpolate/interpolate_batch<1,2,3,8,16>: result evaluates to ys, poly_from_roots = explicit product (repeated roots included); degree_of/remove_leading_zeros; eval/eval_many vs explicit power sums; utilities on lengths {0,1,2,3,127..129,255,1023..1025,2048,4095,4096,random}: power series, add_in_place, mul_acc, batch_inversion with zeros (none/first/last/every k-th/all/batch borders/random). distinct = distinct generated case".into(),
        assumptions: vec!["reference routines use the library's field operations (monitored separately by C07/C08) but none of its polynomial code".into()],
        exhaustive: false,
        require,
        extra: vec![("concurrent_feature".into(), J::B(cfg!(feature = "concurrent")))],
    });
}
