//! C04 Fiat-Shamir transcript: the public coin of prover and verifier is replaced by a recording
//! coin; the recorded event logs are checked offline against (1) the trace specification of the
//! protocol generated from the computation shape, (2) the data actually carried in the proof,
//! (3) the executable coin model, (4) differential dependence of every later challenge on every
//! earlier absorbed datum, and (5) each other.
use std::sync::Arc;

use winter_air::{
    proof::Proof, Air, FieldExtension,
};
use winter_crypto::{
    hashers::{Blake3_192, Blake3_256, Rp62_248, Rp64_256, RpJive64_256, Sha3_256},
    Digest, ElementHasher,
};
use winter_math::{
    fields::{f128, f62, f64, CubeExtension, QuadExtension},
    FieldElement, ToElements,
};
use winter_utils::Deserializable;
use winter_verifier::AcceptableOptions;
use wfv::{
    coin::{self, CoinModel, Ev, Event},
    fields::Fld,
    genair::*,
    hex,
    stark::{self, Fd, Hs, Instance, Proved, COMBOS},
    Finish, Rng, Run, State, J,
};

/// the expected sequence of coin operations (spec), with the data each reseed must carry
#[derive(Debug, Clone, PartialEq)]
enum Step {
    New(Vec<u8>),
    Reseed(&'static str, [u8; 32]),
    Draws(&'static str, usize),
    Clz,
    Ints,
}

fn ood_hashes<B: Fld, E: FieldElement<BaseField = B>, H: ElementHasher<BaseField = B>>(proof: &Proof, main_w: usize, aux_w: usize, ncomp: usize) -> Result<([u8; 32], [u8; 32]), String> {
    let (frame, evals) = proof.ood_frame.clone().parse::<E>(main_w, aux_w, ncomp).map_err(|e| format!("ood frame: {e}"))?;
    // trace states: current/next interleaved per column, then the Lagrange frame
    let mut els: Vec<E> = Vec::new();
    for c in 0..frame.current_row().len() {
        els.push(frame.current_row()[c]);
        els.push(frame.next_row()[c]);
    }
    if let Some(l) = frame.lagrange_kernel_frame() {
        els.extend_from_slice(l.inner());
    }
    Ok((H::hash_elements(&els).as_bytes(), H::hash_elements(&evals).as_bytes()))
}

/// little-endian integer of at most 16 bytes as a residue
fn le_int(b: &[u8]) -> u128 {
    let mut v = [0u8; 16];
    v[..b.len()].copy_from_slice(b);
    u128::from_le_bytes(v)
}

/// reference encoding of the proof context into coin-seed elements: (main width, #aux segments
/// [, aux width, aux rands]) packed into one element; trace length; trace metadata in chunks of
/// ELEMENT_BYTES - 1 bytes, zero padded; the metadata length if there is metadata; the two halves of
/// the field modulus bytes; (extension, folding factor, remainder max degree) packed; grinding;
/// blowup; number of queries
fn ref_context_elements<B: Fld>(proof: &Proof) -> Vec<B> {
    let ti = proof.trace_info();
    let o = proof.options();
    let mut out: Vec<u128> = Vec::new();
    let mut buf = ti.main_trace_width() as u128;
    buf = (buf << 8) | ti.num_aux_segments() as u128;
    if ti.num_aux_segments() == 1 {
        buf = (buf << 8) | ti.aux_segment_width() as u128;
        buf = (buf << 8) | ti.get_num_aux_segment_rand_elements() as u128;
    }
    out.push(buf);
    out.push(ti.length() as u128);
    for chunk in ti.meta().chunks(B::ELEMENT_BYTES - 1) {
        out.push(le_int(chunk));
    }
    if !ti.meta().is_empty() {
        out.push(ti.meta().len() as u128);
    }
    let m = proof.context.field_modulus_bytes();
    let (m1, m2) = m.split_at(m.len() / 2);
    out.push(le_int(m1));
    out.push(le_int(m2));
    let ext = match o.field_extension() {
        FieldExtension::None => 1u128,
        FieldExtension::Quadratic => 2,
        FieldExtension::Cubic => 3,
    };
    let fo = o.to_fri_options();
    out.push((ext << 16) | ((fo.folding_factor() as u128) << 8) | fo.remainder_max_degree() as u128);
    out.push(o.grinding_factor() as u128);
    out.push(o.blowup_factor() as u128);
    out.push(o.num_queries() as u128);
    out.into_iter().map(B::from_res).collect()
}

fn spec<B: Fld, H: ElementHasher<BaseField = B>>(inst: &Instance, proof: &Proof) -> Result<Vec<Step>, String> {
    let shape = &inst.shape;
    let values: Vec<Vec<B>> = inst.values.iter().map(|c| c.iter().map(|v| B::from_res(*v)).collect()).collect();
    let pubs = GPub::<B> { shape: shape.clone(), values };
    let air = GAir::<B>::new(proof.trace_info().clone(), pubs.clone(), proof.options().clone());
    let lde = air.lde_domain_size();
    let layers = proof.options().to_fri_options().num_fri_layers(lde);
    let nseg = proof.trace_info().num_segments();
    let (troots, croot, froots) = proof.commitments.clone().parse::<H>(nseg, layers).map_err(|e| format!("commitments: {e}"))?;
    // the context elements are recomputed from the decoded fields with the documented layout, not
    // with the library's to_elements()
    let mut seed: Vec<B> = ref_context_elements::<B>(proof);
    if seed != <winter_air::proof::Context as ToElements<B>>::to_elements(&proof.context) {
        return Err(format!("context.to_elements() departs from the documented layout (trace metadata of {} bytes)", proof.trace_info().meta().len()));
    }
    seed.extend(pubs.to_elements());
    let mut seed_bytes = Vec::new();
    for e in &seed {
        e.write_into(&mut seed_bytes);
    }
    let mut s = vec![Step::New(seed_bytes), Step::Reseed("main-trace-root", troots[0].as_bytes())];
    let lagr = air.context().has_lagrange_kernel_aux_column();
    if nseg > 1 {
        if lagr {
            // the (stub) GKR proof of the family is the 4-byte trace-length logarithm; prover and
            // verifier absorb its hash before deriving the Lagrange randomness from the coin
            s.push(Step::Reseed("gkr-proof", H::hash(&(shape.log_n as u32).to_le_bytes()).as_bytes()));
            s.push(Step::Draws("gkr-lagrange-randomness", shape.log_n as usize));
        }
        s.push(Step::Draws("aux-randomness", proof.trace_info().get_num_aux_segment_rand_elements()));
        s.push(Step::Reseed("aux-trace-root", troots[1].as_bytes()));
    }
    let nt = air.context().num_transition_constraints();
    let na = air.context().num_assertions();
    s.push(Step::Draws("constraint-composition-coefficients", nt + na + if lagr { shape.log_n as usize + 1 } else { 0 }));
    s.push(Step::Reseed("constraint-root", croot.as_bytes()));
    s.push(Step::Draws("ood-point", 1));
    let ncomp = air.context().num_constraint_composition_columns();
    let (main_w, aux_w) = (proof.trace_info().main_trace_width(), proof.trace_info().aux_segment_width());
    let (h1, h2) = match proof.options().field_extension() {
        FieldExtension::None => ood_hashes::<B, B, H>(proof, main_w, aux_w, ncomp)?,
        FieldExtension::Quadratic => ood_hashes::<B, QuadExtension<B>, H>(proof, main_w, aux_w, ncomp)?,
        FieldExtension::Cubic => ood_hashes::<B, CubeExtension<B>, H>(proof, main_w, aux_w, ncomp)?,
    };
    s.push(Step::Reseed("ood-trace-frame-hash", h1));
    s.push(Step::Reseed("ood-constraint-evaluations-hash", h2));
    s.push(Step::Draws("deep-coefficients", main_w + aux_w + ncomp + lagr as usize));
    for k in 0..layers {
        s.push(Step::Reseed("fri-layer-root", froots[k].as_bytes()));
        s.push(Step::Draws("fri-alpha", 1));
    }
    // the last FRI commitment must be the commitment to the remainder that the proof carries (hash of its
    // elements): otherwise the remainder is a message the challenges after it do not depend on
    {
        let ds = wfv::seeds::digest_size(inst.hs);
        let map = wfv::mutate::map_proof(&proof.to_bytes(), ds).ok_or("proof layout")?;
        let pb = proof.to_bytes();
        let rem = &pb[map.fri_remainder.0..map.fri_remainder.1];
        match stark::remainder_commitment(inst.fd, inst.hs, proof.options().field_extension(), rem) {
            Some(h) if h == winter_utils::Serializable::to_bytes(&froots[layers]) => {},
            _ => return Err("the absorbed remainder commitment is not the hash of the remainder carried in the proof".into()),
        }
    }
    s.push(Step::Reseed("fri-remainder-commitment", froots[layers].as_bytes()));
    s.push(Step::Clz);
    s.push(Step::Ints);
    Ok(s)
}

/// checks one log (prover or verifier) against the spec; returns the index of the first deviation
fn conform(log: &[Event], spec: &[Step], role: char, proof: &Proof, lde: usize, ext_degree: usize) -> Result<(), String> {
    let mut i = 0usize;
    let coin_id = log.first().map(|e| e.coin).unwrap_or(0);
    if log.iter().any(|e| e.coin != coin_id) {
        return Err("more than one coin instance was used".into());
    }
    fn take<'a>(log: &'a [Event], i: &mut usize, what: &str) -> Result<&'a Event, String> {
        let e = log.get(*i).ok_or_else(|| format!("log ends before {what}"))?;
        *i += 1;
        Ok(e)
    }
    for st in spec {
        match st {
            Step::New(seed) => match &take(log, &mut i, "new")?.ev {
                Ev::New { seed: s, .. } if s == seed => {},
                Ev::New { .. } => return Err("coin seed is not context.to_elements() || public_inputs.to_elements()".into()),
                e => return Err(format!("expected new, found {e:?}")),
            },
            Step::Reseed(what, data) => match &take(log, &mut i, what)?.ev {
                Ev::Reseed { data: d } if d == data => {},
                Ev::Reseed { data: d } => return Err(format!("reseed '{what}' absorbed {} but the proof carries {}", hex(&d[..8]), hex(&data[..8]))),
                e => return Err(format!("expected reseed '{what}', found {}", wfv::report::truncate(&format!("{e:?}"), 80))),
            },
            Step::Draws(what, n) => {
                for k in 0..*n {
                    match &take(log, &mut i, what)?.ev {
                        Ev::Draw { degree, value: Some(_) } if *degree == ext_degree => {},
                        Ev::Draw { degree, .. } => return Err(format!("draw {k} of '{what}' has extension degree {degree}, expected {ext_degree} (or failed)")),
                        e => return Err(format!("expected draw {k}/{n} of '{what}', found {}", wfv::report::truncate(&format!("{e:?}"), 80))),
                    }
                }
                // the verifier draws one unused alpha after the remainder commitment (documented)
            },
            Step::Clz => {
                if role == 'V' {
                    // optional extra alpha draw after the remainder commitment
                    if let Some(Event { ev: Ev::Draw { .. }, .. }) = log.get(i) {
                        i += 1;
                    }
                    match &log.get(i).ok_or("log ends before proof-of-work check")?.ev {
                        Ev::Clz { value, result } => {
                            if *value != proof.pow_nonce {
                                return Err("proof-of-work check uses another nonce than the proof carries".into());
                            }
                            if *result < proof.options().grinding_factor() {
                                return Err("verifier continued although the proof-of-work check failed".into());
                            }
                            i += 1;
                        },
                        e => return Err(format!("expected check_leading_zeros, found {}", wfv::report::truncate(&format!("{e:?}"), 80))),
                    }
                }
            },
            Step::Ints => match &log.get(i).ok_or("log ends before query positions")?.ev {
                Ev::Ints { n, domain, nonce, result: Some(_) } => {
                    if *n != proof.options().num_queries() || *domain != lde || *nonce != proof.pow_nonce {
                        return Err(format!("draw_integers({n}, {domain}, {nonce}) does not match options/domain/nonce of the proof"));
                    }
                    i += 1;
                },
                e => return Err(format!("expected draw_integers, found {}", wfv::report::truncate(&format!("{e:?}"), 80))),
            },
        }
    }
    if i != log.len() {
        return Err(format!("{} unexpected coin operations after the query positions", log.len() - i));
    }
    Ok(())
}

/// replays a log through the coin model; returns the outputs (draw bytes / integer lists)
fn replay<B: Fld, H: ElementHasher<BaseField = B>>(log: &[Event], perturb: Option<usize>) -> Result<Vec<Vec<u8>>, String> {
    let mut m: Option<CoinModel<H>> = None;
    let mut outs = Vec::new();
    for (k, e) in log.iter().enumerate() {
        let flip = perturb == Some(k);
        match &e.ev {
            Ev::New { seed, elements } => {
                let mut els = Vec::new();
                let mut rd = winter_utils::SliceReader::new(seed);
                for _ in 0..*elements {
                    els.push(B::read_from(&mut rd).map_err(|e| format!("{e}"))?);
                }
                if flip {
                    let last = els.len() - 1;
                    els[last] += B::ONE;
                }
                m = Some(CoinModel::<H>::new(&els));
            },
            Ev::Reseed { data } => {
                let mut d = H::Digest::read_from_bytes(data).map_err(|e| format!("{e}"))?;
                if flip {
                    // another digest: hash of the original bytes
                    d = H::hash(data);
                }
                m.as_mut().ok_or("reseed before new")?.reseed(d);
            },
            Ev::Draw { degree, .. } => {
                let c = m.as_mut().ok_or("draw before new")?.draw(*degree);
                let mut b = Vec::new();
                if let Some(c) = c {
                    for x in c {
                        b.extend_from_slice(&x.to_le_bytes()[..B::ELEMENT_BYTES]);
                    }
                }
                outs.push(b);
            },
            Ev::Clz { value, .. } => {
                let r = m.as_ref().ok_or("clz before new")?.leading_zeros(*value);
                outs.push(r.to_le_bytes().to_vec());
            },
            Ev::Ints { n, domain, nonce, .. } => {
                let v = m.as_mut().ok_or("ints before new")?.draw_integers(*n, *domain, if flip { nonce.wrapping_add(1) } else { *nonce });
                outs.push(v.iter().flat_map(|x| (*x as u64).to_le_bytes()).collect());
            },
        }
    }
    Ok(outs)
}

fn recorded_outputs(log: &[Event]) -> Vec<Vec<u8>> {
    log.iter()
        .filter_map(|e| match &e.ev {
            Ev::Draw { value, .. } => Some(value.clone().unwrap_or_default()),
            Ev::Clz { result, .. } => Some(result.to_le_bytes().to_vec()),
            Ev::Ints { result, .. } => Some(result.clone().unwrap_or_default().iter().flat_map(|x| (*x as u64).to_le_bytes()).collect()),
            _ => None,
        })
        .collect()
}

fn check<B: Fld, H: ElementHasher<BaseField = B>>(st: &mut State, rng: &mut Rng, inst: &Instance, proof: &Proof, lp: &[Event], lv: &[Event]) {
    let desc = |what: &str, why: String| J::obj(vec![("field", J::s(format!("{:?}", inst.fd))), ("hasher", J::s(format!("{:?}", inst.hs))), ("options", J::s(format!("{:?}", inst.options))), ("shape", inst.shape.json()), ("check", J::s(what)), ("why", J::s(why))]);
    let key = |s: &str| -> String { s.chars().filter(|c| !c.is_ascii_digit()).take(70).collect() };
    let sp = match spec::<B, H>(inst, proof) {
        Ok(s) => s,
        Err(e) => {
            st.violation(format!("spec-construction:{}", key(&e)), desc("spec", e));
            return;
        },
    };
    let lde = inst.shape.n() * inst.options.blowup_factor();
    let ext_degree = inst.options.field_extension().degree() as usize;
    // (1)+(2) order of operations and absorbed data, both sides
    for (role, log) in [('P', lp), ('V', lv)] {
        if let Err(e) = conform(log, &sp, role, proof, lde, ext_degree) {
            st.violation(format!("transcript-spec:{role}:{}", key(&e)), desc("trace specification / absorbed data", e));
            return;
        }
    }
    // (3) coin model reproduces every output of both sides
    for (role, log) in [('P', lp), ('V', lv)] {
        match replay::<B, H>(log, None) {
            Ok(o) if o == recorded_outputs(log) => {},
            Ok(_) => st.violation(format!("coin-model-mismatch:{role}"), desc("model replay", "recorded outputs differ from the model".into())),
            Err(e) => st.violation(format!("coin-model-replay-error:{role}"), desc("model replay", e)),
        }
    }
    // (5) prover and verifier: identical absorbed data and identical challenges, except for the
    // verifier's unused extra alpha and its proof-of-work check
    let strip = |log: &[Event], role: char| -> Vec<Ev> {
        let mut v: Vec<Ev> = log.iter().map(|e| e.ev.clone()).collect();
        if role == 'V' {
            // drop the check_leading_zeros event and the draw directly before it if it follows the last reseed
            if let Some(pos) = v.iter().position(|e| matches!(e, Ev::Clz { .. })) {
                v.remove(pos);
                if pos >= 2 && matches!(v[pos - 1], Ev::Draw { .. }) && matches!(v[pos - 2], Ev::Reseed { .. }) {
                    v.remove(pos - 1);
                }
            }
        }
        v
    };
    if strip(lp, 'P') != strip(lv, 'V') {
        let a = strip(lp, 'P');
        let b = strip(lv, 'V');
        let k = a.iter().zip(b.iter()).position(|(x, y)| x != y).unwrap_or(a.len().min(b.len()));
        st.violation("prover-verifier-transcripts-differ", desc("prover vs verifier", format!("first difference at operation {k}: prover {:?} / verifier {:?}", a.get(k).map(|e| wfv::report::truncate(&format!("{e:?}"), 60)), b.get(k).map(|e| wfv::report::truncate(&format!("{e:?}"), 60)))));
    }
    // (4) differential dependence: perturbing one absorbed datum changes every later challenge
    let base = recorded_outputs(lp);
    let absorb_positions: Vec<usize> = lp.iter().enumerate().filter(|(_, e)| matches!(e.ev, Ev::New { .. } | Ev::Reseed { .. })).map(|(k, _)| k).collect();
    for _ in 0..3 {
        let k = *rng.pick(&absorb_positions);
        if let Ok(o) = replay::<B, H>(lp, Some(k)) {
            // outputs produced after position k
            let before = lp[..k].iter().filter(|e| matches!(e.ev, Ev::Draw { .. } | Ev::Clz { .. } | Ev::Ints { .. })).count();
            // only field-element draws (>= 62 bits) are compared: query positions and the
            // proof-of-work measure live in small domains and may coincide by chance
            let is_draw: Vec<bool> = lp.iter().filter(|e| matches!(e.ev, Ev::Draw { .. } | Ev::Clz { .. } | Ev::Ints { .. })).map(|e| matches!(e.ev, Ev::Draw { .. })).collect();
            let unchanged: Vec<usize> = (before..base.len()).filter(|j| is_draw[*j] && o[*j] == base[*j]).collect();
            if o[..before] != base[..before] || !unchanged.is_empty() {
                st.violation("challenge-independent-of-earlier-message", desc("differential dependence", format!("absorbed datum at operation {k} perturbed; later outputs unchanged at {unchanged:?}")));
            }
            st.count("differential.perturbations");
        }
    }
    st.count(&format!("transcripts.{:?}.{:?}", inst.fd, inst.hs));
    st.add("events.prover", lp.len() as u64);
    st.add("events.verifier", lv.len() as u64);
    st.add("reseeds.checked_against_proof", sp.iter().filter(|s| matches!(s, Step::Reseed(..))).count() as u64);
    if sp.iter().any(|s| matches!(s, Step::Draws("gkr-lagrange-randomness", _))) {
        st.count("transcripts.with_lagrange");
    }
    if proof.trace_info().num_segments() > 1 {
        st.count("transcripts.multi_segment");
    }
    let layers = sp.iter().filter(|s| matches!(s, Step::Reseed("fri-layer-root", _))).count();
    st.count(&format!("transcripts.fri_layers_{}", layers.min(4)));
    if inst.options.grinding_factor() > 0 {
        st.count("transcripts.with_grinding");
    }
}

fn case(i: u64, rng: &mut Rng, st: &mut State) {
    let (fd, hs) = COMBOS[(i % COMBOS.len() as u64) as usize];
    let ext = match (i / 12) % 3 {
        0 => FieldExtension::None,
        1 => FieldExtension::Quadratic,
        _ if stark::cubic_supported(fd) => FieldExtension::Cubic,
        _ => FieldExtension::Quadratic,
    };
    let lim = Limits { max_log_n: if i % 5 == 0 { 9 } else { 6 }, max_width: 8, max_blowup: *rng.pick(&[2, 4, 8, 16]), allow_aux: true };
    let mut shape = Shape::random(rng, &lim);
    if i % 6 == 0 && shape.aux.is_none() {
        shape.aux = Some(AuxShape { cols: 1 + (i as usize / 6) % 2, rands: (i as usize / 12) % 3, lagrange: i % 12 == 0 });
    }
    // trace metadata at the element-chunk boundaries of the three fields
    if i % 3 == 2 {
        let lens = [1usize, 2, 3, 6, 7, 8, 9, 14, 15, 16, 17, 22, 23, 24, 29, 30, 31, 32, 33, 45, 46, 50, 64, 100, 226, 255, 1000];
        let l = lens[rng.usize(lens.len())];
        shape.meta = rng.bytes(l);
        if rng.chance(1, 3) {
            shape.meta[l - 1] = 0;
        }
    }
    let shape = Arc::new(shape);
    let mut options = random_options(rng, &shape, ext, 32);
    if i % 4 == 1 {
        // grinding 1..16 (Rescue hashers are slow: keep theirs small)
        let g = if matches!(hs, Hs::Rp62_248 | Hs::Rp64_256 | Hs::RpJive64_256) { rng.range(1, 6) } else { *rng.pick(&[1usize, 4, 8, 12, 16]) } as u32;
        options = winter_air::ProofOptions::new(options.num_queries(), options.blowup_factor(), g, ext, options.to_fri_options().folding_factor(), options.to_fri_options().remainder_max_degree());
    }
    let (cols, values) = stark::gen_trace(fd, &shape, rng, TraceKind::Random);
    let inst = Instance { fd, hs, shape: shape.clone(), options: options.clone(), cols, values };
    let _ = coin::take_log();
    coin::set_role('P');
    let proof = match stark::prove(&inst, true) {
        Proved::Ok(p) => p,
        _ => {
            st.count("skipped.prover_failed(C01)");
            return;
        },
    };
    let lp = coin::take_log();
    let searched = coin::clz_calls();
    coin::set_role('V');
    let r = stark::verify_proof(fd, hs, &shape, &inst.values, proof.clone(), &AcceptableOptions::MinConjecturedSecurity(0), true);
    let lv = coin::take_log();
    st.evals += 1;
    if !matches!(r, Ok(Ok(()))) {
        // an honest proof that is rejected is C01's event; the part of the claim that is C04's own still
        // applies to what the verifier did before it gave up: every coin operation it performed must be the
        // operation the prover performed at the same point, with the same absorbed data and the same output
        st.count("verifier_rejected(C01).prefix_compared");
        let a: Vec<Ev> = lp.iter().map(|e| e.ev.clone()).collect();
        let b: Vec<Ev> = lv.iter().map(|e| e.ev.clone()).collect();
        let k = a.iter().zip(b.iter()).position(|(x, y)| x != y);
        // the only legitimate deviations are the verifier's unused extra alpha after the remainder commitment
        // and its proof-of-work check, i.e. an operation of the verifier where the prover draws the positions
        let legit = |k: usize| matches!(a.get(k), Some(Ev::Ints { .. })) && matches!(b.get(k), Some(Ev::Draw { .. }) | Some(Ev::Clz { .. }));
        if let Some(k) = k {
            if !legit(k) {
                st.violation(
                    "prover-verifier-transcripts-differ:before-rejection",
                    J::obj(vec![
                        ("field", J::s(format!("{:?}", inst.fd))),
                        ("hasher", J::s(format!("{:?}", inst.hs))),
                        ("options", J::s(format!("{:?}", inst.options))),
                        ("shape", inst.shape.json()),
                        ("verifier_result", J::s(wfv::report::truncate(&format!("{r:?}"), 120))),
                        ("why", J::s(format!("first difference at operation {k}: prover {} / verifier {}", wfv::report::truncate(&format!("{:?}", a.get(k)), 70), wfv::report::truncate(&format!("{:?}", b.get(k)), 70)))),
                    ]),
                );
            }
        } else if b.len() > a.len() {
            st.violation("prover-verifier-transcripts-differ:before-rejection", J::s("the verifier performed more coin operations than the prover"));
        }
        return;
    }
    st.add("prover.proof_of_work_candidates", searched);
    type B62 = f62::BaseElement;
    type B64 = f64::BaseElement;
    type B128 = f128::BaseElement;
    match (fd, hs) {
        (Fd::F62, Hs::Blake3_192) => check::<B62, Blake3_192<B62>>(st, rng, &inst, &proof, &lp, &lv),
        (Fd::F62, Hs::Blake3_256) => check::<B62, Blake3_256<B62>>(st, rng, &inst, &proof, &lp, &lv),
        (Fd::F62, Hs::Sha3_256) => check::<B62, Sha3_256<B62>>(st, rng, &inst, &proof, &lp, &lv),
        (Fd::F62, Hs::Rp62_248) => check::<B62, Rp62_248>(st, rng, &inst, &proof, &lp, &lv),
        (Fd::F64, Hs::Blake3_192) => check::<B64, Blake3_192<B64>>(st, rng, &inst, &proof, &lp, &lv),
        (Fd::F64, Hs::Blake3_256) => check::<B64, Blake3_256<B64>>(st, rng, &inst, &proof, &lp, &lv),
        (Fd::F64, Hs::Sha3_256) => check::<B64, Sha3_256<B64>>(st, rng, &inst, &proof, &lp, &lv),
        (Fd::F64, Hs::Rp64_256) => check::<B64, Rp64_256>(st, rng, &inst, &proof, &lp, &lv),
        (Fd::F64, Hs::RpJive64_256) => check::<B64, RpJive64_256>(st, rng, &inst, &proof, &lp, &lv),
        (Fd::F128, Hs::Blake3_192) => check::<B128, Blake3_192<B128>>(st, rng, &inst, &proof, &lp, &lv),
        (Fd::F128, Hs::Blake3_256) => check::<B128, Blake3_256<B128>>(st, rng, &inst, &proof, &lp, &lv),
        (Fd::F128, Hs::Sha3_256) => check::<B128, Sha3_256<B128>>(st, rng, &inst, &proof, &lp, &lv),
        _ => unreachable!(),
    }
    st.distinct.insert(wfv::fnv(format!("{fd:?}{hs:?}{ext:?}{:?}{i}", shape.encode()).as_bytes()));
    st.sample("transcript", || {
        J::obj(vec![
            ("field", J::s(format!("{fd:?}"))),
            ("hasher", J::s(format!("{hs:?}"))),
            ("shape", shape.json()),
            ("prover_log", J::A(lp.iter().take(14).map(|e| J::s(wfv::report::truncate(&format!("{:?}", e.ev), 70))).collect())),
            ("prover_events", J::i(lp.len())),
            ("verifier_events", J::i(lv.len())),
        ])
    });
}

fn main() {
    let run = Run::start("C04");
    let n = run.size(12_000, 1_000_000);
    run.par("cases", n, case);
    let mut require = vec![("differential.perturbations".to_string(), 300), ("transcripts.multi_segment".to_string(), 20), ("transcripts.with_lagrange".to_string(), 5), ("transcripts.with_grinding".to_string(), 50), ("transcripts.fri_layers_0".to_string(), 5), ("transcripts.fri_layers_2".to_string(), 5)];
    for (fd, hs) in COMBOS {
        require.push((format!("transcripts.{fd:?}.{hs:?}"), 20));
    }
    run.finish(Finish {
        rule: "per case a shape of the C01 family (single/multi segment, with/without Lagrange kernel, 0..max FRI layers, grinding 0..16, three extension degrees, all 12 field x hasher combinations) is proven and verified with the recording coin substituted through the RandomCoin type parameter; offline checker over both logs: (1) operation order equals the protocol's trace specification generated from the shape, (2) every reseed datum equals the commitment / OOD-frame hash / nonce recomputed from the proof, the seed equals context.to_elements() || public_inputs.to_elements(), (3) replay through the executable coin model reproduces every output, (4) perturbing any single absorbed datum changes every later challenge, (5) prover and verifier logs are identical up to the verifier's unused extra alpha and its proof-of-work check. distinct = distinct (field, hasher, extension, shape)".into(),
        assumptions: vec![
            "the trace specification is written from the protocol description (DESIGN.md §5 C04); the GKR stub of the family draws log2(n) elements and does not absorb its proof bytes (that is the user's GkrVerifier's duty)".into(),
            "prover-side proof-of-work search calls are counted, not logged".into(),
            "single-threaded build: all coin calls happen on the calling thread (thread-local log)".into(),
        ],
        exhaustive: false,
        require,
        extra: vec![],
    });
}
