//! C18 Security estimate and acceptance policy: the conjectured estimate is compared with an
//! integer re-implementation of the documented formula on the whole parameter grid; both
//! estimates are checked for monotonicity on adjacent grid points; the acceptance policy is
//! checked against its semantics (thresholds level-1/level/level+1, option sets).
use winter_air::{
    proof::{Context, Proof},
    FieldExtension, ProofOptions,
};
use winter_crypto::{hashers, Hasher};
use winter_math::fields::{f128, f62, f64};
use winter_utils::{Deserializable, Serializable, SliceReader};
use winter_verifier::AcceptableOptions;
use wfv::{fields::Fld, Finish, Rng, Run, State, J};

/// hasher stub: only the collision-resistance constant is read by the estimators
struct Cr<const C: u32>;
impl<const C: u32> Hasher for Cr<C> {
    type Digest = <hashers::Blake3_256<f64::BaseElement> as Hasher>::Digest;
    const COLLISION_RESISTANCE: u32 = C;
    fn hash(_: &[u8]) -> Self::Digest {
        unreachable!()
    }
    fn merge(_: &[Self::Digest; 2]) -> Self::Digest {
        unreachable!()
    }
    fn merge_with_int(_: Self::Digest, _: u64) -> Self::Digest {
        unreachable!()
    }
}

#[derive(Clone, Copy, Debug, PartialEq)]
struct P {
    q: usize,
    blowup: usize,
    grind: u32,
    ext: u32, // 1,2,3
    log_n: u32,
    field: usize, // 0: f62, 1: f64, 2: f128
    fold: usize,
    rem: usize,
}

const BITS: [u32; 3] = [62, 64, 128];

fn ext_of(d: u32) -> FieldExtension {
    match d {
        1 => FieldExtension::None,
        2 => FieldExtension::Quadratic,
        _ => FieldExtension::Cubic,
    }
}

fn modulus(field: usize) -> Vec<u8> {
    match field {
        0 => wfv::refmath::P62.to_le_bytes()[..8].to_vec(),
        1 => wfv::refmath::P64.to_le_bytes()[..8].to_vec(),
        _ => wfv::refmath::P128.to_le_bytes().to_vec(),
    }
}

/// synthetic proof whose context is decoded from bytes (so that trace lengths up to 2^32 and any
/// field are reachable without running a prover)
fn proof_for(p: &P, template: &Proof) -> Proof {
    let opts = ProofOptions::new(p.q, p.blowup, p.grind, ext_of(p.ext), p.fold, p.rem);
    let mut b = vec![1u8, 0, 0, p.log_n as u8, 0, 0];
    let m = modulus(p.field);
    b.push(m.len() as u8);
    b.extend_from_slice(&m);
    b.extend_from_slice(&opts.to_bytes());
    let mut r = SliceReader::new(&b);
    let context = Context::read_from(&mut r).expect("context bytes");
    Proof { context, ..template.clone() }
}

/// the documented formula, integer arithmetic only
fn conjectured_ref(p: &P, cr: u32) -> u32 {
    let field_security = BITS[p.field] * p.ext - (p.log_n + p.blowup.trailing_zeros());
    let mut query_security = p.blowup.trailing_zeros() * p.q as u32;
    if query_security >= 80 {
        query_security += p.grind;
    }
    (field_security.min(query_security) - 1).min(cr)
}

fn pj(p: &P) -> J {
    J::obj(vec![
        ("queries", J::i(p.q)),
        ("blowup", J::i(p.blowup)),
        ("grinding", J::i(p.grind)),
        ("extension_degree", J::i(p.ext)),
        ("log2_trace_length", J::i(p.log_n)),
        ("field_bits", J::i(BITS[p.field])),
        ("fri_folding", J::i(p.fold)),
        ("fri_remainder_max_degree", J::i(p.rem)),
    ])
}

fn levels<const C: u32>(pr: &Proof) -> (u32, u32) {
    (pr.security_level::<Cr<C>>(true), pr.security_level::<Cr<C>>(false))
}
fn conj<const C: u32>(pr: &Proof) -> u32 {
    pr.security_level::<Cr<C>>(true)
}

const CRS: [u32; 6] = [96, 97, 110, 124, 127, 128];
fn conj_cr(pr: &Proof, cr: u32) -> u32 {
    match cr {
        96 => conj::<96>(pr),
        97 => conj::<97>(pr),
        110 => conj::<110>(pr),
        124 => conj::<124>(pr),
        127 => conj::<127>(pr),
        _ => conj::<128>(pr),
    }
}
fn both_cr(pr: &Proof, cr: u32) -> (u32, u32) {
    match cr {
        96 => levels::<96>(pr),
        97 => levels::<97>(pr),
        110 => levels::<110>(pr),
        124 => levels::<124>(pr),
        127 => levels::<127>(pr),
        _ => levels::<128>(pr),
    }
}

fn conjectured_grid(run: &Run, template: &Proof) {
    let grinds: Vec<u32> = (0..=32).collect();
    let logs: Vec<u32> = (3..=32).collect();
    // one worker case per (queries, field)
    run.par("conjectured-grid", 255 * 3, |i, _rng, st| {
        let q = 1 + (i as usize % 255);
        let field = i as usize / 255;
        let mut n = 0u64;
        for blowup_log in 1..=7u32 {
            for &grind in &grinds {
                for ext in 1..=3u32 {
                    for &log_n in &logs {
                        // contexts beyond the documented limit (LDE domain of at most 2^32 - 1 points)
                        // cannot be constructed or decoded
                        if log_n + blowup_log > 31 {
                            continue;
                        }
                        let p = P { q, blowup: 1 << blowup_log, grind, ext, log_n, field, fold: 4, rem: 7 };
                        let pr = proof_for(&p, template);
                        let mut prev = 0;
                        for cr in CRS {
                            let got = conj_cr(&pr, cr);
                            let want = conjectured_ref(&p, cr);
                            if got != want {
                                st.violation(format!("conjectured:formula"), J::obj(vec![("params", pj(&p)), ("collision_resistance", J::i(cr)), ("got", J::i(got)), ("documented_formula", J::i(want))]));
                            }
                            if got < prev {
                                st.violation("conjectured:monotone:collision-resistance", pj(&p));
                            }
                            prev = got;
                            n += 1;
                        }
                        // monotone in queries / grinding / extension degree (adjacent grid points)
                        let base = conj::<128>(&pr);
                        if q < 255 {
                            let p2 = P { q: q + 1, ..p };
                            if conj::<128>(&proof_for(&p2, template)) < base {
                                st.violation("conjectured:monotone:queries", pj(&p));
                            }
                        }
                        if grind < 32 {
                            let p2 = P { grind: grind + 1, ..p };
                            if conj::<128>(&proof_for(&p2, template)) < base {
                                st.violation("conjectured:monotone:grinding", pj(&p));
                            }
                        }
                        if ext < 3 {
                            let p2 = P { ext: ext + 1, ..p };
                            if conj::<128>(&proof_for(&p2, template)) < base {
                                st.violation("conjectured:monotone:extension", pj(&p));
                            }
                        }
                        n += 3;
                    }
                }
            }
        }
        st.evals += n;
        st.add("conjectured.grid_points", n);
        st.distinct.insert(i);
        if q == 27 && field == 1 {
            let p = P { q, blowup: 8, grind: 16, ext: 2, log_n: 20, field, fold: 4, rem: 7 };
            st.sample("conjectured", || J::obj(vec![("params", pj(&p)), ("level_cr128", J::i(conjectured_ref(&p, 128)))]));
        }
    });
}

fn rand_params(rng: &mut Rng) -> P {
    loop {
        let p = rand_params_any(rng);
        if p.log_n + p.blowup.trailing_zeros() <= 31 {
            return p;
        }
    }
}

fn rand_params_any(rng: &mut Rng) -> P {
    P {
        q: if rng.chance(1, 8) { [1, 2, 254, 255][rng.usize(4)] } else { rng.range(1, 255) },
        blowup: 1 << rng.range(1, 7),
        grind: rng.range(0, 32) as u32,
        ext: rng.range(1, 3) as u32,
        log_n: rng.range(3, 32) as u32,
        field: rng.usize(3),
        fold: 1 << rng.range(1, 4),
        rem: (1 << rng.range(0, 8)) - 1,
    }
}

/// reference transcription of the documented proven-security bound (list-decoding regime,
/// Theorem 8 / eq. 7 of eprint 2022/1216 as cited in the library's comments): for every proximity
/// parameter m in 3..min(ceil(h/4 (1 + sqrt(1 + 2/h))), 1000) the minimum of the FRI commit-phase,
/// FRI query-phase (with grinding), ALI and DEEP error exponents, each reduced by one bit; the best
/// m; capped by the collision resistance. Truncations to integers are taken at value + eps, so that
/// [bound(-eps), bound(+eps)] tolerates other orders of floating-point evaluation
fn proven_ref(p: &P, cr: u32, eps: f64) -> u64 {
    let bits = [62.0, 64.0, 128.0][p.field] * p.ext as f64;
    let h = (1u64 << p.log_n) as f64;
    let blowup = p.blowup as f64;
    let rho = 1.0 / blowup;
    let lde = h * blowup;
    let tr = |x: f64| -> u64 {
        let y = x + eps;
        if y <= 0.0 {
            0
        } else {
            y.floor() as u64
        }
    };
    let m_max = ((0.25 * h * (1.0 + (1.0 + 2.0 / h).sqrt())).ceil() as u64).min(1000);
    let mut best = 0u64;
    for m in 3..m_max {
        let m = m as f64;
        let alpha = (1.0 + 0.5 / m) * rho.sqrt();
        let rho_plus = (h + 2.0) / lde;
        let m_plus = (1.0 / (2.0 * (alpha / rho_plus.sqrt() - 1.0))).ceil();
        let alpha_plus = (1.0 + 0.5 / m_plus) * rho_plus.sqrt();
        let theta_plus = 1.0 - alpha_plus;
        let commit = bits - ((0.5 * (m + 0.5).powf(7.0) / rho.powf(1.5)) * lde.powf(2.0)).log2();
        let query = p.grind as f64 - (1.0 - theta_plus).powf(p.q as f64).log2();
        let fri = tr(commit).min(tr(query));
        let v = if fri < 1 {
            0
        } else {
            let fri = fri - 1;
            let l_plus = (2.0 * m_plus + 1.0) / (2.0 * rho_plus.sqrt());
            let ali = -l_plus.log2() + bits;
            let deep = -(l_plus * ((blowup + 1.0) * (h + 2.0 - 1.0) + (h - 1.0))).log2() + bits;
            let mn = fri.min(tr(ali)).min(tr(deep));
            if mn < 1 {
                0
            } else {
                mn - 1
            }
        };
        best = best.max(v);
    }
    best.min(cr as u64)
}

fn proven_sample(run: &Run, template: &Proof) {
    run.par("proven", run.size(60_000, 3_000_000), |_i, rng, st| {
        let p = rand_params(rng);
        let cr = *rng.pick(&CRS);
        let pr = proof_for(&p, template);
        let (c, base) = both_cr(&pr, cr);
        let _ = c;
        // FRI options do not enter either estimate
        let p_fri = P { fold: 1 << rng.range(1, 4), rem: (1 << rng.range(0, 8)) - 1, ..p };
        if both_cr(&proof_for(&p_fri, template), cr) != (c, base) {
            st.violation("estimate-depends-on-fri-layout", pj(&p));
        }
        let mut dirs = 0;
        if p.q < 255 {
            let p2 = P { q: p.q + 1, ..p };
            if both_cr(&proof_for(&p2, template), cr).1 < base {
                st.violation("proven:monotone:queries", J::obj(vec![("params", pj(&p)), ("collision_resistance", J::i(cr))]));
            }
            dirs += 1;
        }
        if p.grind < 32 {
            let p2 = P { grind: p.grind + 1, ..p };
            if both_cr(&proof_for(&p2, template), cr).1 < base {
                st.violation("proven:monotone:grinding", J::obj(vec![("params", pj(&p)), ("collision_resistance", J::i(cr))]));
            }
            dirs += 1;
        }
        if p.ext < 3 {
            let p2 = P { ext: p.ext + 1, ..p };
            if both_cr(&proof_for(&p2, template), cr).1 < base {
                st.violation("proven:monotone:extension", J::obj(vec![("params", pj(&p)), ("collision_resistance", J::i(cr))]));
            }
            dirs += 1;
        }
        let ci = CRS.iter().position(|x| *x == cr).unwrap();
        if ci + 1 < CRS.len() && both_cr(&pr, CRS[ci + 1]).1 < base {
            st.violation("proven:monotone:collision-resistance", pj(&p));
        }
        if base > cr {
            st.violation("proven:exceeds-collision-resistance", pj(&p));
        }
        // the estimate equals the documented bound (m_plus is the result of a ceil(): near its
        // jumps both neighbouring values are admitted through the eps window of the truncations)
        let (lo, hi) = (proven_ref(&p, cr, -1e-6), proven_ref(&p, cr, 1e-6));
        if (base as u64) < lo.min(hi) || (base as u64) > lo.max(hi) {
            st.violation("proven:differs-from-documented-bound", J::obj(vec![("params", pj(&p)), ("collision_resistance", J::i(cr)), ("got", J::i(base)), ("reference_window", J::s(format!("{lo}..{hi}")))]));
        }
        st.count("proven.compared_with_reference");
        st.evals += dirs + 2;
        st.add("proven.monotonicity_pairs", dirs + 1);
        st.distinct.insert(wfv::fnv(format!("{:?}{cr}", p).as_bytes()));
        if base > 0 {
            st.count("proven.nonzero_levels");
        }
        st.sample("proven", || J::obj(vec![("params", pj(&p)), ("collision_resistance", J::i(cr)), ("proven_level", J::i(base))]));
    });
}


/// The estimators are functions of (parameters, collision resistance) only: whatever was asked before - the same
/// parameters with another hash function, other parameters, the other estimate - the answer is the same. Run on one
/// thread so that consecutive calls really are consecutive.
fn estimator_histories(run: &Run, template: &Proof) {
    run.seq("histories", run.size(3_000, 60_000), |_i, rng, st| {
        let p = rand_params(rng);
        let pr = proof_for(&p, template);
        let other = proof_for(&rand_params(rng), template);
        let mut first: std::collections::BTreeMap<u32, (u32, u32)> = std::collections::BTreeMap::new();
        let len = rng.range(4, 12);
        let mut hist: Vec<String> = Vec::new();
        for _ in 0..len {
            // now and then something else is asked in between
            match rng.below(5) {
                0 => {
                    let _ = both_cr(&other, *rng.pick(&CRS));
                    hist.push("other-parameters".into());
                },
                1 => {
                    let _ = conj_cr(&pr, *rng.pick(&CRS));
                    hist.push("conjectured-only".into());
                },
                _ => {},
            }
            let cr = *rng.pick(&CRS);
            let got = both_cr(&pr, cr);
            hist.push(format!("cr={cr} -> {got:?}"));
            let (lo, hi) = (proven_ref(&p, cr, -1e-6), proven_ref(&p, cr, 1e-6));
            let want_c = conjectured_ref(&p, cr);
            let bad = got.0 != want_c || (got.1 as u64) < lo.min(hi) || (got.1 as u64) > lo.max(hi) || got.1 > cr;
            let e = *first.entry(cr).or_insert(got);
            if bad || e != got {
                st.violation(
                    if e != got { "estimate-depends-on-earlier-calls" } else { "estimate-after-history-differs-from-documented-bound" },
                    J::obj(vec![("params", pj(&p)), ("collision_resistance", J::i(cr)), ("got(conjectured,proven)", J::s(format!("{got:?}"))), ("first_answer", J::s(format!("{e:?}"))), ("reference(conjectured, proven window)", J::s(format!("{want_c}, {lo}..{hi}"))), ("history", J::arr_s(&hist.iter().map(|x| x.as_str()).collect::<Vec<_>>()))]),
                );
                break;
            }
            st.evals += 1;
            st.count("histories.calls");
        }
        st.distinct.insert(wfv::fnv(format!("h{:?}", p).as_bytes()));
        st.sample("estimator-history", || J::obj(vec![("params", pj(&p)), ("history", J::arr_s(&hist.iter().map(|x| x.as_str()).collect::<Vec<_>>()))]));
    });
}

fn policy_for<H: Hasher>(st: &mut State, rng: &mut Rng, pr: &Proof, p: &P, hname: &str) {
    let lc = pr.security_level::<H>(true);
    let lp = pr.security_level::<H>(false);
    let chk = |st: &mut State, what: &str, opt: AcceptableOptions, want_ok: bool| {
        let got = opt.validate::<H>(pr).is_ok();
        if got != want_ok {
            st.violation(format!("policy:{what}"), J::obj(vec![("params", pj(p)), ("hasher", J::s(hname)), ("conjectured", J::i(lc)), ("proven", J::i(lp)), ("expected_accept", J::B(want_ok))]));
        }
        st.evals += 1;
    };
    chk(st, "conjectured:level", AcceptableOptions::MinConjecturedSecurity(lc), true);
    chk(st, "conjectured:level+1", AcceptableOptions::MinConjecturedSecurity(lc + 1), false);
    chk(st, "conjectured:level-1", AcceptableOptions::MinConjecturedSecurity(lc.saturating_sub(1)), true);
    chk(st, "conjectured:max", AcceptableOptions::MinConjecturedSecurity(u32::MAX), false);
    chk(st, "proven:level", AcceptableOptions::MinProvenSecurity(lp), true);
    chk(st, "proven:level+1", AcceptableOptions::MinProvenSecurity(lp + 1), false);
    chk(st, "proven:level-1", AcceptableOptions::MinProvenSecurity(lp.saturating_sub(1)), true);
    // option sets: membership is exact equality of all six parameters
    let own = pr.options().clone();
    let mut others = Vec::new();
    for k in 0..6 {
        let mut v = *p;
        match k {
            0 => v.q = if p.q == 255 { 254 } else { p.q + 1 },
            1 => v.blowup = if p.blowup == 128 { 64 } else { p.blowup * 2 },
            2 => v.grind = if p.grind == 32 { 31 } else { p.grind + 1 },
            3 => v.ext = p.ext % 3 + 1,
            4 => v.fold = if p.fold == 16 { 8 } else { p.fold * 2 },
            _ => v.rem = if p.rem == 255 { 127 } else { p.rem * 2 + 1 },
        }
        others.push(ProofOptions::new(v.q, v.blowup, v.grind, ext_of(v.ext), v.fold, v.rem));
    }
    chk(st, "optionset:empty", AcceptableOptions::OptionSet(vec![]), false);
    chk(st, "optionset:neighbours-only", AcceptableOptions::OptionSet(others.clone()), false);
    let mut with = others.clone();
    with.insert(rng.usize(with.len() + 1), own.clone());
    chk(st, "optionset:contains", AcceptableOptions::OptionSet(with), true);
    chk(st, "optionset:exact", AcceptableOptions::OptionSet(vec![own]), true);
    st.count("policy.proofs");
}

fn policy(run: &Run, template: &Proof) {
    run.par("policy", run.size(20_000, 1_000_000), |_i, rng, st| {
        let p = rand_params(rng);
        let pr = proof_for(&p, template);
        type B62 = f62::BaseElement;
        type B64 = f64::BaseElement;
        type B128 = f128::BaseElement;
        match rng.below(8) {
            0 => policy_for::<hashers::Blake3_192<B64>>(st, rng, &pr, &p, "Blake3_192"),
            1 => policy_for::<hashers::Blake3_256<B62>>(st, rng, &pr, &p, "Blake3_256"),
            2 => policy_for::<hashers::Sha3_256<B128>>(st, rng, &pr, &p, "Sha3_256"),
            3 => policy_for::<hashers::Rp62_248>(st, rng, &pr, &p, "Rp62_248"),
            4 => policy_for::<hashers::Rp64_256>(st, rng, &pr, &p, "Rp64_256"),
            5 => policy_for::<hashers::RpJive64_256>(st, rng, &pr, &p, "RpJive64_256"),
            6 => policy_for::<Cr<110>>(st, rng, &pr, &p, "stub-110"),
            _ => policy_for::<Cr<127>>(st, rng, &pr, &p, "stub-127"),
        }
        st.distinct.insert(wfv::fnv(format!("pol{:?}", p).as_bytes()));
    });
    // the published collision-resistance constants
    run.seq("hasher-constants", 1, |_, _, st| {
        type B62 = f62::BaseElement;
        type B64 = f64::BaseElement;
        let got = [
            <hashers::Blake3_192<B64> as Hasher>::COLLISION_RESISTANCE,
            <hashers::Blake3_256<B64> as Hasher>::COLLISION_RESISTANCE,
            <hashers::Sha3_256<B62> as Hasher>::COLLISION_RESISTANCE,
            <hashers::Rp62_248 as Hasher>::COLLISION_RESISTANCE,
            <hashers::Rp64_256 as Hasher>::COLLISION_RESISTANCE,
            <hashers::RpJive64_256 as Hasher>::COLLISION_RESISTANCE,
        ];
        if got != [96, 128, 128, 124, 128, 128] {
            st.violation("hasher-collision-resistance-constants", J::A(got.iter().map(|x| J::i(*x)).collect()));
        }
        // number of modulus bits seen by the estimator for the three fields
        let t = Proof::new_dummy();
        for (f, bits) in BITS.iter().enumerate() {
            let p = P { q: 1, blowup: 2, grind: 0, ext: 1, log_n: 3, field: f, fold: 2, rem: 0 };
            if proof_for(&p, &t).context.num_modulus_bits() != *bits {
                st.violation("num_modulus_bits", J::i(*bits));
            }
        }
        let _ = <B62 as Fld>::NAME;
        st.evals += 9;
        st.count("constants.checked");
    });
}

fn main() {
    let run = Run::start("C18");
    let template = Proof::new_dummy();
    conjectured_grid(&run, &template);
    proven_sample(&run, &template);
    estimator_histories(&run, &template);
    policy(&run, &template);
    let exhaustive = true;
    run.finish(Finish {
        rule: "conjectured estimate: grid queries 1..255 x blowup 2..128 x grinding 0..32 x extension degree 1..3 x log2(trace length) 3..32 (LDE domain <= 2^31, the limit a proof context admits) x field bits {62,64,128} x collision resistance {96,97,110,124,127,128}: equals the integer re-implementation of the documented formula, monotone to the adjacent grid point in queries/grinding/extension/collision resistance; proven estimate: random parameter sets with the same four monotonicity directions, independence from FRI layout, comparison with a transcription of the documented bound; single-threaded call histories (the same parameters asked with the six collision resistances in random order, other parameters and the other estimate in between: every answer equals the first answer and the reference); policy: thresholds level-1/level/level+1 for both estimates and option sets with/without the proof's options, all six hashers + stub hashers. distinct = distinct parameter set".into(),
        assumptions: vec![
            "proof contexts are decoded from hand-built bytes (Context::read_from) so that any field and trace lengths up to 2^32 are reachable without running a prover".into(),
            "policy is exercised through AcceptableOptions::validate, the function verify() calls first; end-to-end verify with thresholds is part of C01/C02 shapes".into(),
        ],
        exhaustive,
        require: vec![("conjectured.grid_points".into(), 100_000), ("proven.monotonicity_pairs".into(), 1000), ("proven.nonzero_levels".into(), 100), ("histories.calls".into(), 1000), ("policy.proofs".into(), 500), ("constants.checked".into(), 1)],
        extra: vec![],
    });
}
