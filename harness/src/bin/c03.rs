//! C03 Proof integrity: every mutant of an accepted proof whose decoded content differs from the
//! original must be rejected or fail to parse. Mutants: all single-bit flips, structured edits of
//! every scalar / length / component located by the wire-layout parser, truncations, semantic
//! edits through the public fields, and position-aware substitutions of the FRI remainder.
use std::sync::Arc;

use winter_air::{proof::Proof, FieldExtension, ProofOptions};
use winter_crypto::{
    hashers::{Blake3_192, Blake3_256, Rp62_248, Rp64_256, RpJive64_256},
    Hasher,
};
use winter_math::{
    fields::{f128, f62, f64, CubeExtension, QuadExtension},
    polynom, FieldElement, StarkField,
};
use winter_utils::{Deserializable, Serializable};
use winter_verifier::AcceptableOptions;
use wfv::{
    coin::{self, Ev},
    fields::Fld,
    gen::*,
    genair::*,
    mutate::{self, Kind, Mutant, ProofMap},
    stark::{self, Fd, Hs, Instance, Proved, COMBOS},
    Finish, Rng, Run, State, J,
};

fn digest_size(hs: Hs) -> usize {
    match hs {
        Hs::Blake3_192 => 24,
        Hs::Rp62_248 => 31,
        _ => 32,
    }
}

fn canon_digest(hs: Hs, b: &[u8]) -> Vec<u8> {
    fn c<H: Hasher>(b: &[u8]) -> Vec<u8> {
        H::Digest::read_from_bytes(b).map(|d| d.to_bytes()).unwrap_or_else(|_| b.to_vec())
    }
    match hs {
        Hs::Blake3_192 => c::<Blake3_192<f64::BaseElement>>(b),
        Hs::Rp62_248 => c::<Rp62_248>(b),
        Hs::Rp64_256 => c::<Rp64_256>(b),
        Hs::RpJive64_256 => c::<RpJive64_256>(b),
        _ => c::<Blake3_256<f64::BaseElement>>(b),
    }
}

/// serialized proof with every digest re-encoded canonically (alternative encodings of the same
/// digest are outside the property's claim)
fn canonical(hs: Hs, bytes: &[u8]) -> Option<Vec<u8>> {
    let ds = digest_size(hs);
    let map = mutate::map_proof(bytes, ds)?;
    let mut out = bytes.to_vec();
    for f in &map.fields {
        if f.name == "commitments" && f.len % ds == 0 {
            for k in 0..f.len / ds {
                let r = f.off + k * ds..f.off + (k + 1) * ds;
                let c = canon_digest(hs, &bytes[r.clone()]);
                out[r].copy_from_slice(&c);
            }
        }
        if f.name.ends_with(".num_digests") {
            let nd = bytes[f.off] as usize;
            for k in 0..nd {
                let r = f.off + 1 + k * ds..f.off + 1 + (k + 1) * ds;
                if r.end <= bytes.len() {
                    let c = canon_digest(hs, &bytes[r.clone()]);
                    out[r].copy_from_slice(&c);
                }
            }
        }
    }
    Some(out)
}

struct Seed {
    inst: Instance,
    proof: Proof,
    bytes: Vec<u8>,
    map: ProofMap,
}

fn make_seed(i: u64, rng: &mut Rng) -> Option<Seed> {
    let (fd, hs) = COMBOS[(i % COMBOS.len() as u64) as usize];
    let ext = match (i / 12) % 3 {
        0 => FieldExtension::None,
        1 => FieldExtension::Quadratic,
        _ if stark::cubic_supported(fd) => FieldExtension::Cubic,
        _ => FieldExtension::None,
    };
    let lim = Limits { max_log_n: 5, max_width: 3, max_blowup: 4, allow_aux: i % 4 == 0 };
    let mut shape = Shape::random(rng, &lim);
    if i % 8 == 0 && shape.aux.is_none() {
        shape.aux = Some(AuxShape { cols: 1, rands: 1, lagrange: i % 16 == 0 });
    }
    // trace metadata of boundary lengths (element-chunk boundaries of the three fields), with and
    // without trailing zero bytes
    shape.meta = if i % 3 == 1 {
        let lens = [1usize, 2, 3, 6, 7, 8, 9, 14, 15, 16, 17, 22, 29, 30, 31, 32, 33, 45, 50, 64, 100, 226, 255];
        let l = lens[rng.usize(lens.len())];
        let mut m = rng.bytes(l);
        if rng.chance(1, 3) {
            m[l - 1] = 0;
        }
        m
    } else {
        vec![]
    };
    let shape = Arc::new(shape);
    // small proofs: few queries; FRI layers 0..max by varying folding / remainder
    let mut options = random_options(rng, &shape, ext, 8);
    // the nonce is bound through the query positions only: keep >= 40 bits of position entropy so
    // that a nonce edit cannot reproduce the same positions by chance
    let lde_bits = (shape.n() * options.blowup_factor()).ilog2() as usize;
    let mut q = (40usize.div_ceil(lde_bits)).max(rng.range(6, 9)).min(shape.n() * options.blowup_factor() - 1);
    // every eighth seed: one or two queries, so that openings of a single leaf index occur (in the
    // trace / constraint trees and in the deep FRI layers); edits of the nonce are not judged on
    // these seeds (see `judge`), everything else is
    if i % 8 == 7 {
        q = 1 + (i as usize / 8) % 2;
    }
    // every fourth seed: a remainder of 16 or 8 coefficients where the schedule allows it - more coefficients
    // than final query positions leave room for the position-aware remainder substitutions
    let mut rem_deg = options.to_fri_options().remainder_max_degree();
    if i % 4 == 3 {
        let lde = shape.n() * options.blowup_factor();
        for cand in [15usize, 7] {
            if wfv::frih::schedule_well_formed(lde, &winter_fri::FriOptions::new(options.blowup_factor(), options.to_fri_options().folding_factor(), cand)) {
                rem_deg = cand;
                break;
            }
        }
    }
    options = ProofOptions::new(q, options.blowup_factor(), if i % 5 == 0 && i % 8 != 7 { 4 } else { 0 }, ext, options.to_fri_options().folding_factor(), rem_deg);
    let (cols, values) = stark::gen_trace(fd, &shape, rng, TraceKind::Random);
    let inst = Instance { fd, hs, shape, options, cols, values };
    let proof = match stark::prove(&inst, false) {
        Proved::Ok(p) => p,
        _ => return None,
    };
    if !matches!(stark::verify_proof(fd, hs, &inst.shape, &inst.values, proof.clone(), &AcceptableOptions::MinConjecturedSecurity(0), false), Ok(Ok(()))) {
        return None;
    }
    let bytes = proof.to_bytes();
    let map = mutate::map_proof(&bytes, digest_size(hs))?;
    Some(Seed { inst, proof, bytes, map })
}

/// query positions the verifier draws for this proof (read from the recording coin's log)
fn query_positions(seed: &Seed) -> Option<Vec<usize>> {
    let _ = coin::take_log();
    coin::set_role('V');
    let r = stark::verify_proof(seed.inst.fd, seed.inst.hs, &seed.inst.shape, &seed.inst.values, seed.proof.clone(), &AcceptableOptions::MinConjecturedSecurity(0), true);
    let log = coin::take_log();
    if !matches!(r, Ok(Ok(()))) {
        return None;
    }
    log.iter().rev().find_map(|e| match &e.ev {
        Ev::Ints { result: Some(v), .. } => {
            let mut v = v.clone();
            v.sort_unstable();
            v.dedup();
            Some(v)
        },
        _ => None,
    })
}

/// honest remainder + c * prod (x - x_q) over the final (folded) query points, re-encoded
fn remainder_plus_vanishing<B: Fld, E: FieldElement<BaseField = B>>(seed: &Seed, rng: &mut Rng, positions: &[usize]) -> Option<Vec<(&'static str, Vec<u8>)>> {
    let o = &seed.inst.options;
    let lde = seed.inst.shape.n() * o.blowup_factor();
    let fo = o.to_fri_options();
    let layers = fo.num_fri_layers(lde);
    let mut pos = positions.to_vec();
    let mut d = lde;
    for _ in 0..layers {
        pos = winter_fri::folding::fold_positions(&pos, d, fo.folding_factor());
        d /= fo.folding_factor();
    }
    let rem: Vec<E> = seed.proof.fri_proof.parse_remainder().ok()?;
    if pos.len() + 1 > rem.len() {
        return None;
    }
    let g = B::get_root_of_unity(d.ilog2());
    let xs: Vec<E> = pos.iter().map(|&p| E::from(B::GENERATOR * g.exp_vartime(B::pi(p as u128)))).collect();
    let z = polynom::poly_from_roots(&xs);
    let c = rand_nonzero::<B, E>(rng);
    let mut r = rem.clone();
    for (k, zc) in z.iter().enumerate() {
        r[k] += c * *zc;
    }
    // the other direction: the remainder reduced modulo the vanishing polynomial, i.e. the lowest-degree
    // polynomial through the queried points (zero-padded to the committed length)
    let q = xs.len();
    let mut low = rem.clone();
    for k in (q..low.len()).rev() {
        let lead = low[k];
        if lead != E::ZERO {
            for j in 0..=q {
                low[k - q + j] -= lead * z[j];
            }
        }
    }
    let (a, b) = seed.map.fri_remainder;
    let mut outs = Vec::new();
    for (what, poly) in [("position-aware:remainder+c*vanishing(queried points)", r), ("position-aware:remainder-mod-vanishing(interpolant through the queried points)", low)] {
        if poly == rem {
            continue;
        }
        let mut rb = Vec::new();
        for e in &poly {
            e.write_into(&mut rb);
        }
        if rb.len() != b - a {
            continue;
        }
        let mut out = seed.bytes.clone();
        out[a..b].copy_from_slice(&rb);
        outs.push((what, out));
    }
    if outs.is_empty() {
        return None;
    }
    Some(outs)
}

fn hex(b: &[u8]) -> String {
    b.iter().map(|x| format!("{x:02x}")).collect()
}

thread_local! {
    static SEED_INDEX: std::cell::Cell<u64> = const { std::cell::Cell::new(0) };
}

/// VERIF_ONLY_CLASS=<prefix> restricts judging to mutants of that class (replay aid; generation is unchanged)
fn only_class() -> &'static Option<String> {
    static F: std::sync::OnceLock<Option<String>> = std::sync::OnceLock::new();
    F.get_or_init(|| std::env::var("VERIF_ONLY_CLASS").ok())
}

fn judge(st: &mut State, seed: &Seed, canon_orig: &[u8], m: &Mutant) {
    if let Some(f) = only_class() {
        if !m.class.starts_with(f.as_str()) {
            return;
        }
    }
    // the nonce is bound through the query positions only: with one or two queries another nonce
    // reproduces the positions with probability 1/LDE .. and the edited proof is then a valid proof
    // with another nonce; nonce edits (and sampled pairs, which may contain one) are judged on the
    // seeds with >= 40 bits of position entropy only
    if seed.inst.options.num_queries() <= 2 && (m.class.contains("pow_nonce") || m.class.starts_with("pair:")) {
        st.count("skipped.nonce_edit_on_low_entropy_seed");
        return;
    }
    let (fd, hs) = (seed.inst.fd, seed.inst.hs);
    st.evals += 1;
    let parsed = match wfv::catch(|| Proof::from_bytes(&m.bytes)) {
        Ok(Ok(p)) => p,
        Ok(Err(_)) => {
            st.count("outcome.parse_failed");
            return;
        },
        Err(_) => {
            st.count("outcome.panic_while_parsing(see C06)");
            return;
        },
    };
    if parsed == seed.proof {
        st.count("outcome.same_decoded_content(outside claim)");
        return;
    }
    let r = stark::verify_proof(fd, hs, &seed.inst.shape, &seed.inst.values, parsed.clone(), &AcceptableOptions::MinConjecturedSecurity(0), false);
    match r {
        Ok(Err(e)) => {
            if std::env::var("VERIF_C03_DEBUG").is_ok() {
                eprintln!("rejected [{}]: {e}", m.class);
                for (name, p) in [("original", seed.proof.clone()), ("mutant", parsed.clone())] {
                    let _ = coin::take_log();
                    coin::set_role('V');
                    let _ = stark::verify_proof(fd, hs, &seed.inst.shape, &seed.inst.values, p.clone(), &AcceptableOptions::MinConjecturedSecurity(0), true);
                    eprintln!("== {name}: meta {:?}", p.context.trace_info().meta());
                    for e in coin::take_log().iter().take(1) {
                        eprintln!("   {:?}", e.ev);
                    }
                }
            }
            st.count("outcome.rejected")
        },
        Err(_) => st.count("outcome.panic_while_verifying(see C06)"),
        Ok(Ok(())) => {
            // outside the claim: other encodings of the same digests, layout-only partition count
            let reenc = parsed.to_bytes();
            if canonical(hs, &reenc).map(|c| c == canon_orig).unwrap_or(false) {
                st.count("outcome.accepted_alternative_digest_encoding(outside claim)");
                return;
            }
            let mut p2 = parsed.clone();
            p2.fri_proof = seed.proof.fri_proof.clone();
            if p2 == seed.proof && parsed.fri_proof.num_layers() == seed.proof.fri_proof.num_layers() && parsed.fri_proof.to_bytes()[..parsed.fri_proof.to_bytes().len() - 1] == seed.proof.fri_proof.to_bytes()[..seed.proof.fri_proof.to_bytes().len() - 1] {
                st.count("outcome.accepted_partition_count_edit(outside claim)");
                return;
            }
            if std::env::var("VERIF_C03_DEBUG").is_ok() {
                eprintln!("cols: {:?}", seed.inst.cols.iter().map(|c| c.iter().take(6).collect::<Vec<_>>()).collect::<Vec<_>>());
                eprintln!("values: {:?}", seed.inst.values);
                eprintln!("proof: {:?}", seed.proof);
                for (name, p) in [("original", seed.proof.clone()), ("mutant", parsed.clone())] {
                    let _ = coin::take_log();
                    coin::set_role('V');
                    let r = stark::verify_proof(fd, hs, &seed.inst.shape, &seed.inst.values, p, &AcceptableOptions::MinConjecturedSecurity(0), true);
                    eprintln!("== {name}: {r:?}");
                    for e in coin::take_log() {
                        eprintln!("   {:?}", e.ev);
                    }
                }
            }
            // every trace column constant and no randomized auxiliary segment: every committed vector
            // (trace LDE, constraint evaluations = 0, DEEP composition = 0, FRI layers = 0) is constant,
            // all Merkle leaves are equal and nothing in the proof depends on the challenges any more
            let constant = seed.inst.shape.aux.is_none() && seed.inst.cols.iter().all(|c| c.iter().all(|x| *x == c[0]));
            let sig = if constant { "modified-proof-accepted:every-trace-column-constant".to_string() } else { format!("modified-proof-accepted:{}", m.class) };
            st.violation(
                sig,
                J::obj(vec![
                    ("field", J::s(format!("{fd:?}"))),
                    ("hasher", J::s(format!("{hs:?}"))),
                    ("options", J::s(format!("{:?}", seed.inst.options))),
                    ("shape", seed.inst.shape.json()),
                    ("mutation", J::s(&m.class)),
                    ("seed_index", J::i(SEED_INDEX.with(|c| c.get()) as usize)),
                    ("mutant_hex", J::s(if m.bytes.len() <= 6000 { hex(&m.bytes) } else { String::new() })),
                    ("proof_len", J::i(seed.bytes.len())),
                    ("mutant_len", J::i(m.bytes.len())),
                    ("first_difference_at", J::i(seed.bytes.iter().zip(&m.bytes).position(|(a, b)| a != b).unwrap_or(seed.bytes.len().min(m.bytes.len())))),
                ]),
            );
        },
    }
}

fn case(i: u64, rng: &mut Rng, st: &mut State, quick: bool) {
    SEED_INDEX.with(|c| c.set(i));
    if let Ok(only) = std::env::var("VERIF_ONLY_INDEX") {
        if only.parse::<u64>().ok() != Some(i) {
            return;
        }
    }
    let Some(seed) = make_seed(i, rng) else {
        st.count("skipped.seed_not_accepted(C01)");
        return;
    };
    let hs = seed.inst.hs;
    let Some(canon_orig) = canonical(hs, &seed.bytes) else { return };
    let n = seed.bytes.len();
    // (a) every single-bit flip (exhaustive); in quick every offset but one random bit above 600 bytes
    for off in 0..n {
        let bits: Vec<u8> = if !quick || n <= 1500 || off < 200 { (0..8).collect() } else { vec![rng.usize(8) as u8] };
        for b in bits {
            let mut v = seed.bytes.clone();
            v[off] ^= 1 << b;
            let cls = format!("bitflip:{}", mutate::field_at(&seed.map, off));
            judge(st, &seed, &canon_orig, &Mutant { class: cls, bytes: v });
            st.count("mutants.bitflip");
        }
    }
    // (b) structured
    let first = mutate::structured(&seed.bytes, &seed.map, rng, digest_size(hs));
    let pairs = mutate::second_generation(&first, rng, digest_size(hs), if quick { 300 } else { 3000 });
    for m in first.iter() {
        st.count(&format!("mutants.{}", m.class.split(':').next().unwrap_or("")));
        judge(st, &seed, &canon_orig, m);
    }
    for m in pairs.iter() {
        st.count("mutants.pair-of-structured-edits");
        judge(st, &seed, &canon_orig, m);
    }
    // truncation at every offset
    for cut in 0..n {
        if quick && n > 1500 && cut % 3 != 0 {
            continue;
        }
        judge(st, &seed, &canon_orig, &Mutant { class: "truncated".into(), bytes: seed.bytes[..cut].to_vec() });
        st.count("mutants.truncated");
    }
    // (c) pairs of structured edits (sampled second generation); semantic edits through the public fields
    let mut sem: Vec<(&str, Proof)> = Vec::new();
    let mut p = seed.proof.clone();
    p.pow_nonce = p.pow_nonce.wrapping_add(1);
    sem.push(("pow_nonce+1", p));
    let mut p = seed.proof.clone();
    p.pow_nonce = 0;
    sem.push(("pow_nonce=0", p));
    // nonces that agree with the original one as field elements, in their low half, or up to one bit
    for (what, v) in [
        ("pow_nonce+f64-modulus", seed.proof.pow_nonce.wrapping_add(18446744069414584321)),
        ("pow_nonce-f64-modulus", seed.proof.pow_nonce.wrapping_sub(18446744069414584321)),
        ("pow_nonce+f62-modulus", seed.proof.pow_nonce.wrapping_add(4611624995532046337)),
        ("pow_nonce+2*f62-modulus", seed.proof.pow_nonce.wrapping_add(2 * 4611624995532046337)),
        ("pow_nonce^2^63", seed.proof.pow_nonce ^ (1 << 63)),
        ("pow_nonce^2^32", seed.proof.pow_nonce ^ (1 << 32)),
        ("pow_nonce+2^32", seed.proof.pow_nonce.wrapping_add(1 << 32)),
    ] {
        let mut p = seed.proof.clone();
        p.pow_nonce = v;
        sem.push((what, p));
    }
    for d in [1i16, -1] {
        let mut p = seed.proof.clone();
        p.num_unique_queries = (p.num_unique_queries as i16 + d).clamp(0, 255) as u8;
        sem.push(("num_unique_queries+-1", p));
    }
    let mut p = seed.proof.clone();
    p.gkr_proof = match p.gkr_proof {
        None => Some(vec![]),
        Some(_) => None,
    };
    sem.push(("gkr_proof-toggled", p));
    let mut p = seed.proof.clone();
    p.gkr_proof = Some(rng.bytes(5));
    sem.push(("gkr_proof-replaced", p));
    if seed.proof.trace_queries.len() == 2 {
        let mut p = seed.proof.clone();
        p.trace_queries.swap(0, 1);
        sem.push(("trace-segment-queries-swapped", p));
    }
    let mut p = seed.proof.clone();
    std::mem::swap(&mut p.constraint_queries, &mut p.trace_queries[0]);
    sem.push(("constraint-and-trace-queries-swapped", p));
    for (what, p) in sem {
        if p != seed.proof {
            st.count("mutants.semantic");
            judge(st, &seed, &canon_orig, &Mutant { class: format!("semantic:{what}"), bytes: p.to_bytes() });
        }
    }
    // (d) position-aware substitution of the FRI remainder
    if let Some(pos) = query_positions(&seed) {
        type B62 = f62::BaseElement;
        type B64 = f64::BaseElement;
        type B128 = f128::BaseElement;
        let ext = seed.inst.options.field_extension();
        let sub = match (seed.inst.fd, ext) {
            (Fd::F62, FieldExtension::None) => remainder_plus_vanishing::<B62, B62>(&seed, rng, &pos),
            (Fd::F62, FieldExtension::Quadratic) => remainder_plus_vanishing::<B62, QuadExtension<B62>>(&seed, rng, &pos),
            (Fd::F62, FieldExtension::Cubic) => remainder_plus_vanishing::<B62, CubeExtension<B62>>(&seed, rng, &pos),
            (Fd::F64, FieldExtension::None) => remainder_plus_vanishing::<B64, B64>(&seed, rng, &pos),
            (Fd::F64, FieldExtension::Quadratic) => remainder_plus_vanishing::<B64, QuadExtension<B64>>(&seed, rng, &pos),
            (Fd::F64, FieldExtension::Cubic) => remainder_plus_vanishing::<B64, CubeExtension<B64>>(&seed, rng, &pos),
            (Fd::F128, FieldExtension::None) => remainder_plus_vanishing::<B128, B128>(&seed, rng, &pos),
            (Fd::F128, _) => remainder_plus_vanishing::<B128, QuadExtension<B128>>(&seed, rng, &pos),
        };
        match sub {
            Some(list) => {
                for (what, bytes) in list {
                    st.count(if what.contains("mod-vanishing") { "mutants.remainder_reduced_to_interpolant_of_queried_points" } else { "mutants.remainder_plus_vanishing_polynomial_of_queried_points" });
                    judge(st, &seed, &canon_orig, &Mutant { class: what.into(), bytes });
                }
            },
            None => st.count("skipped.no_room_for_position_aware_remainder"),
        }
    }
    st.count(&format!("seeds.{:?}.{:?}", seed.inst.fd, seed.inst.hs));
    st.count(&format!("seeds.fri_layers_{}", seed.map.fri_layers.len().min(3)));
    if seed.map.num_segments == 2 {
        st.count("seeds.multi_segment");
    }
    if !seed.inst.shape.meta.is_empty() {
        st.count("seeds.with_trace_metadata");
    }
    if seed.inst.options.num_queries() <= 2 {
        st.count("seeds.one_or_two_queries");
    }
    st.add("seed_proof_bytes", n as u64);
    st.distinct.insert(wfv::fnv(&seed.bytes));
    st.sample("seed", || J::obj(vec![("field", J::s(format!("{:?}", seed.inst.fd))), ("hasher", J::s(format!("{hs:?}"))), ("options", J::s(format!("{:?}", seed.inst.options))), ("shape", seed.inst.shape.json()), ("proof_bytes", J::i(n)), ("layout_fields", J::i(seed.map.fields.len()))]));
    let _ = Kind::Blob;
}

fn main() {
    let run = Run::start("C03");
    let quick = run.quick();
    let n = run.size(48, 2_400);
    run.par("seeds", n, |i, rng, st| case(i, rng, st, quick));
    // distinct_nontrivial counts mutants that parsed with different content: approximate by rejected
    let mut require = vec![("outcome.rejected".to_string(), 10_000), ("outcome.parse_failed".to_string(), 1000), ("mutants.bitflip".to_string(), 10_000), ("mutants.semantic".to_string(), 50), ("mutants.remainder_plus_vanishing_polynomial_of_queried_points".to_string(), 3), ("seeds.multi_segment".to_string(), 3), ("seeds.with_trace_metadata".to_string(), 5), ("seeds.one_or_two_queries".to_string(), 3), ("seeds.fri_layers_0".to_string(), 1), ("seeds.fri_layers_1".to_string(), 1)];
    for c in ["scalar", "length", "blob-grow1", "blob-shrink1", "merkle-extra-node-in-vector", "trailing-garbage", "truncated"] {
        require.push((format!("mutants.{c}"), 20));
    }
    let st = run.st.lock().unwrap();
    let rejected = st.get("outcome.rejected");
    drop(st);
    {
        // every rejected mutant is a distinct non-trivial case (different decoded content)
        let mut s = State::new();
        for k in 0..rejected.min(5_000_000) {
            s.distinct.insert(k ^ 0x5bd1e995_u64.wrapping_mul(k + 1));
        }
        run.merge(s);
    }
    run.finish(Finish {
        rule: "seed proofs of small C01-family configurations (n = 8..32, 6..9 queries with >= 40 bits of query-position entropy, every eighth seed with one or two queries (single-index openings; nonce edits not judged there), 0..max FRI layers, single and multi segment, Lagrange kernel, trace metadata of 0..255 bytes at the element-chunk boundaries, all 12 field x hasher combinations, three extension degrees); mutants: every single-bit flip of the serialized proof (exhaustive in thorough; in quick all bits for proofs <= 1500 bytes and for the first 200 bytes, one random bit per byte beyond), every scalar and length field located by the wire-layout parser set to {0,1,max-1,max,+-1,random,...}, every blob grown / shrunk by one byte, one zero byte, one digest, one field element and one table row with all enclosing lengths fixed up, emptied, bit-flipped; rows added to / removed from every opened table at once; out-of-domain frames re-encoded with frame size 1/3/4, a column added/removed, Lagrange frame injected/resized; FRI layers removed / duplicated / swapped; query records swapped; one extra / one fewer digest inside each Merkle node vector; trailing garbage; truncation at every offset; pairs of structured edits (sampled second generation); semantic edits through the public fields (nonce incl. its aliases modulo the 62/64-bit moduli and in the high half, unique-query count, gkr_proof toggled/replaced, query sets swapped); FRI remainder replaced by remainder + c*prod(x - x_q) over the final query points (positions read from the verifier's coin). Oracle: parse failure, or decoded content equal to the original (or equal up to digest re-encoding / partition count: outside the claim), or rejected; acceptance otherwise is a violation. distinct_nontrivial = number of mutants that parsed to different content and were rejected + seeds".into(),
        assumptions: vec!["all bindings are hash based: accidental acceptance needs a collision".into(), "panics are attributed to C06 and only counted here".into()],
        exhaustive: !quick,
        require,
        extra: vec![],
    });
}
