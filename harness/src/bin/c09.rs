//! C09 FFT / interpolation / LDE: every transform output is compared with direct evaluation of the
//! polynomial at explicitly computed points offset * w^i (natural order); interpolation must
//! return the coefficients; the column-batched, segmented LDE builders are compared cell by cell.
use winter_math::{
    fft,
    fields::{f128, f62, f64, CubeExtension, QuadExtension},
    FieldElement, StarkField,
};
use winter_prover::{
    matrix::{ColMatrix, RowMatrix},
    StarkDomain,
};
use wfv::{fields::Fld, gen::*, Finish, Rng, Run, State, J};

fn fail<B: Fld, E: FieldElement<BaseField = B>>(st: &mut State, what: &str, detail: String) {
    let t = type_name::<B, E>();
    st.violation(format!("{t}:{what}"), J::obj(vec![("type", J::s(&t)), ("check", J::s(what)), ("detail", J::s(detail))]));
}

/// domain points offset * w^i for a domain of size n
fn domain<B: Fld>(n: usize, offset: B) -> Vec<B> {
    let w = B::get_root_of_unity(n.ilog2());
    let mut x = offset;
    let mut v = Vec::with_capacity(n);
    for _ in 0..n {
        v.push(x);
        x *= w;
    }
    v
}

/// compares `got` with direct evaluation of `p` at all points (n <= limit) or at sampled points
fn compare<B: Fld, E: FieldElement<BaseField = B>>(rng: &mut Rng, p: &[E], pts: &[B], got: &[E], limit: usize) -> Option<usize> {
    if got.len() != pts.len() {
        return Some(usize::MAX);
    }
    let n = pts.len();
    if n * p.len() <= limit {
        (0..n).find(|&i| p_eval::<E, E>(p, E::from(pts[i])) != got[i])
    } else {
        let k = (limit / p.len()).max(16).min(n);
        for j in 0..k {
            // boundaries first, random afterwards
            let i = match j {
                0 => 0,
                1 => n - 1,
                2 => n / 2,
                3 => p.len().min(n - 1),
                _ => rng.usize(n),
            };
            if p_eval::<E, E>(p, E::from(pts[i])) != got[i] {
                return Some(i);
            }
        }
        None
    }
}

fn rand_offset<B: Fld>(rng: &mut Rng) -> B {
    match rng.below(4) {
        0 => B::ONE,
        1 | 2 => B::GENERATOR,
        _ => rand_nonzero::<B, B>(rng),
    }
}

fn poly_with_degree<B: Fld, E: FieldElement<BaseField = B>>(rng: &mut Rng, n: usize) -> Vec<E> {
    let mut p = rand_vec::<B, E>(rng, n);
    match rng.below(5) {
        0 => {
            // low degree
            let d = rng.usize(n);
            for c in p[d..].iter_mut() {
                *c = E::ZERO;
            }
        },
        1 => {
            for c in p.iter_mut() {
                *c = E::ZERO;
            }
            p[rng.usize(n)] = E::ONE;
        },
        _ => {},
    }
    p
}

fn transforms<B: Fld, E: FieldElement<BaseField = B>>(rng: &mut Rng, st: &mut State, log_n: u32, limit: usize) {
    let t = type_name::<B, E>();
    let n = 1usize << log_n;
    let p = poly_with_degree::<B, E>(rng, n);
    let tw = fft::get_twiddles::<B>(n);
    let itw = fft::get_inv_twiddles::<B>(n);
    // twiddles: w^bitrev(i), inverse twiddles likewise
    let w = B::get_root_of_unity(log_n);
    let mut ok = tw.len() == n / 2 && itw.len() == n / 2;
    if ok {
        let half = n / 2;
        let idx: Vec<usize> = if half <= 1024 { (0..half).collect() } else { (0..64).map(|_| rng.usize(half)).collect() };
        for i in idx {
            let e = fft::permute_index(half.max(1), i) as u64;
            ok &= tw[i] == w.exp_vartime(B::pi(e as u128)) && tw[i] * itw[i] == B::ONE;
        }
    }
    if !ok {
        fail::<B, E>(st, "twiddles", format!("n={n}"));
    }
    // evaluate_poly / serial_fft: natural order
    let pts = domain::<B>(n, B::ONE);
    let mut v = p.clone();
    fft::evaluate_poly(&mut v, &tw);
    if let Some(i) = compare::<B, E>(rng, &p, &pts, &v, limit) {
        fail::<B, E>(st, "evaluate_poly", format!("n={n} first mismatch at point {i}"));
    }
    let mut v2 = p.clone();
    fft::serial_fft(&mut v2, &tw);
    if v2 != v {
        fail::<B, E>(st, "serial_fft", format!("n={n}"));
    }
    // interpolate_poly inverts
    let mut c = v.clone();
    fft::interpolate_poly(&mut c, &itw);
    if c != p {
        fail::<B, E>(st, "interpolate_poly", format!("n={n}"));
    }
    // with offset and blowup
    let offset = rand_offset::<B>(rng);
    let max_blowup_log = (14u32.saturating_sub(log_n)).min(7);
    let blowup = 1usize << rng.usize(max_blowup_log as usize + 1);
    let big = domain::<B>(n * blowup, offset);
    let lde = fft::evaluate_poly_with_offset(&p, &tw, offset, blowup);
    if let Some(i) = compare::<B, E>(rng, &p, &big, &lde, limit) {
        fail::<B, E>(st, "evaluate_poly_with_offset", format!("n={n} blowup={blowup} offset={} first mismatch at point {i}", show::<B, B>(&offset)));
    }
    st.count(&format!("{t}.blowup{blowup}"));
    // interpolate_poly_with_offset from the size-n coset evaluations
    let coset = domain::<B>(n, offset);
    let mut ev: Vec<E> = if n * n <= limit * 4 { coset.iter().map(|x| p_eval::<E, E>(&p, E::from(*x))).collect() } else { fft::evaluate_poly_with_offset(&p, &tw, offset, 1) };
    let ev_copy = ev.clone();
    fft::interpolate_poly_with_offset(&mut ev, &itw, offset);
    if ev != p {
        fail::<B, E>(st, "interpolate_poly_with_offset", format!("n={n} offset={}", show::<B, B>(&offset)));
    }
    // degree inference
    let deg = p_deg(&p).max(0) as usize;
    if fft::infer_degree(&ev_copy, offset) != deg {
        fail::<B, E>(st, "infer_degree", format!("n={n} true degree {deg}"));
    }
    st.count(&format!("{t}.size2^{log_n}"));
    st.evals += 7;
}

fn permute_index_check(st: &mut State) {
    for bits in 0..=20u32 {
        let size = 1usize << bits;
        let step = (size / 4096).max(1);
        for i in (0..size).step_by(step) {
            let mut r = 0usize;
            for b in 0..bits {
                if (i >> b) & 1 == 1 {
                    r |= 1 << (bits - 1 - b);
                }
            }
            if fft::permute_index(size, i) != r {
                st.violation("permute_index", J::obj(vec![("size", J::i(size)), ("index", J::i(i))]));
            }
            st.evals += 1;
        }
    }
    st.count("permute_index.sizes");
}

/// column-batched LDE: RowMatrix::evaluate_polys(_over)<N>, ColMatrix round trips
fn matrices<B: Fld, E: FieldElement<BaseField = B>, const N: usize>(rng: &mut Rng, st: &mut State, cols: usize, log_n: u32, limit: usize) {
    let t = type_name::<B, E>();
    let n = 1usize << log_n;
    let blowup = 1usize << rng.range(1, (12u32.saturating_sub(log_n)).clamp(1, 5) as usize);
    let offset = if rng.bool() { B::GENERATOR } else { rand_nonzero::<B, B>(rng) };
    // trace columns -> polynomials
    let trace: Vec<Vec<E>> = (0..cols).map(|_| rand_vec::<B, E>(rng, n)).collect();
    let trace_m = ColMatrix::new(trace.clone());
    let polys = trace_m.interpolate_columns();
    let polys2 = ColMatrix::new(trace.clone()).interpolate_columns_into();
    let pts = domain::<B>(n, B::ONE);
    // interpolation: polynomial evaluates to the trace on the trace domain (checked on sampled cells)
    let checks = (limit / n).max(4).min((cols * n).max(4));
    for k in 0..checks {
        let (c, r) = if k < 4 { ([0, cols - 1, 0, cols - 1][k], [0, 0, n - 1, n - 1][k]) } else { (rng.usize(cols), rng.usize(n)) };
        if p_eval::<E, E>(polys.get_column(c), E::from(pts[r])) != trace[c][r] || polys2.get_column(c) != polys.get_column(c) {
            fail::<B, E>(st, "interpolate_columns", format!("cols={cols} n={n} col={c} row={r}"));
            break;
        }
    }
    let dom = StarkDomain::from_twiddles(fft::get_twiddles::<B>(n), blowup, offset);
    let big = domain::<B>(n * blowup, offset);
    let rm = RowMatrix::<E>::evaluate_polys_over::<N>(&polys, &dom);
    let cm = polys.evaluate_columns_over(&dom);
    let mut ok = rm.num_rows() == n * blowup && rm.num_cols() == cols && cm.num_rows() == n * blowup && cm.num_cols() == cols;
    if ok {
        for k in 0..checks {
            let (c, r) = if k < 4 { ([0, cols - 1, 0, cols - 1][k], [0, 0, n * blowup - 1, n * blowup - 1][k]) } else { (rng.usize(cols), rng.usize(n * blowup)) };
            let want = p_eval::<E, E>(polys.get_column(c), E::from(big[r]));
            if rm.get(c, r) != want || cm.get(c, r) != want || rm.row(r)[c] != want {
                ok = false;
                fail::<B, E>(st, &format!("evaluate_polys_over<{N}>"), format!("cols={cols} n={n} blowup={blowup} col={c} row={r}"));
                break;
            }
        }
        // full agreement between the row-major and the column-major LDE
        'outer: for r in 0..n * blowup {
            for c in 0..cols {
                if rm.get(c, r) != cm.get(c, r) {
                    fail::<B, E>(st, &format!("row-major-vs-column-major<{N}>"), format!("cols={cols} n={n} blowup={blowup} col={c} row={r}"));
                    break 'outer;
                }
            }
        }
    } else {
        fail::<B, E>(st, &format!("evaluate_polys_over<{N}>:shape"), format!("cols={cols} n={n} blowup={blowup}"));
    }
    // evaluate_polys: generator offset
    let rm2 = RowMatrix::<E>::evaluate_polys::<N>(&polys, blowup);
    let gdom = domain::<B>(n * blowup, B::GENERATOR);
    for _ in 0..checks.min(64) {
        let (c, r) = (rng.usize(cols), rng.usize(n * blowup));
        if rm2.get(c, r) != p_eval::<E, E>(polys.get_column(c), E::from(gdom[r])) {
            fail::<B, E>(st, &format!("evaluate_polys<{N}>"), format!("cols={cols} n={n} blowup={blowup} col={c} row={r}"));
            break;
        }
    }
    // evaluation at a single out-of-domain point
    let z = rand_el::<B, E>(rng);
    let at = polys.evaluate_columns_at(z);
    if at.len() != cols || (0..cols).any(|c| at[c] != p_eval::<E, E>(polys.get_column(c), z)) {
        fail::<B, E>(st, "evaluate_columns_at", format!("cols={cols} n={n}"));
    }
    // domain accessors
    if dom.trace_length() != n || dom.lde_domain_size() != n * blowup || dom.offset() != offset || dom.trace_to_lde_blowup() != blowup {
        fail::<B, E>(st, "StarkDomain:accessors", format!("n={n} blowup={blowup}"));
    }
    let step = rng.usize(dom.ce_domain_size());
    if dom.get_ce_x_at(step) != big[step * (n * blowup / dom.ce_domain_size())] {
        fail::<B, E>(st, "StarkDomain:get_ce_x_at", format!("n={n} blowup={blowup} step={step}"));
    }
    st.count(&format!("{t}.matrix.cols_mod{}_{}", N, if (cols * E::EXTENSION_DEGREE) % N == 0 { "aligned" } else { "ragged" }));
    st.count(&format!("{t}.matrix"));
    if cols >= 254 {
        st.count(&format!("{t}.matrix.wide"));
    }
    st.evals += 5;
}


/// StarkDomain built from a computation description (the way the prover builds it): the three nested domains
/// (trace, constraint evaluation, LDE), their generators, offset, blowups and the x-coordinate look-ups
fn stark_domain_of_air<B: Fld>(rng: &mut Rng, st: &mut State) {
    use std::sync::Arc;
    use wfv::genair::{assertion_values, gen_trace, GAir, GPub, Limits, Shape, TraceKind};
    use winter_air::{Air, FieldExtension, ProofOptions};
    let lim = Limits { max_log_n: 8, max_width: 4, max_blowup: *rng.pick(&[2, 4, 8, 16]), allow_aux: false };
    let shape = Arc::new(Shape::random(rng, &lim));
    let n = shape.n();
    // LDE blowup = constraint-evaluation blowup x {1, 2, 4, 8}
    let blowup = (shape.min_blowup() << rng.usize(4)).min(128);
    let options = ProofOptions::new(1, blowup, 0, FieldExtension::None, 2, 0);
    let cols = gen_trace::<B>(&shape, rng, TraceKind::Random);
    let values = assertion_values::<B>(&shape, &cols);
    let air = GAir::<B>::new(shape.trace_info(), GPub { shape: shape.clone(), values }, options);
    let dom = StarkDomain::new(&air);
    let t = B::NAME;
    let bad = |what: &str, st: &mut State| st.violation(format!("{t}:StarkDomain::new:{what}"), J::obj(vec![("shape", shape.json()), ("lde_blowup", J::i(blowup)), ("check", J::s(what))]));
    let ce = dom.ce_domain_size();
    if dom.trace_length() != n || dom.lde_domain_size() != n * blowup || dom.trace_to_lde_blowup() != blowup || dom.offset() != B::GENERATOR {
        bad("sizes", st);
    }
    if !ce.is_power_of_two() || ce < n || ce > n * blowup || ce != air.ce_domain_size() || dom.trace_to_ce_blowup() * n != ce || dom.ce_to_lde_blowup() * ce != n * blowup {
        bad("constraint-evaluation-domain", st);
    }
    let g = dom.ce_domain_generator();
    if g != B::get_root_of_unity(ce.ilog2()) || g.exp_vartime(B::pi(ce as u128)) != B::ONE || (ce > 1 && g.exp_vartime(B::pi(ce as u128 / 2)) != -B::ONE) {
        bad("ce_domain_generator", st);
    }
    if dom.trace_twiddles() != &fft::get_twiddles::<B>(n)[..] {
        bad("trace_twiddles", st);
    }
    // x-coordinates: every step of the constraint evaluation domain; powers through the table look-up
    let mut x = B::GENERATOR;
    for step in 0..ce {
        if dom.get_ce_x_at(step) != x {
            bad("get_ce_x_at", st);
            break;
        }
        if step % 7 == 0 || step + 1 == ce {
            for power in [1u64, 2, 3, n as u64, (n / 2) as u64, ce as u64, (ce as u64) + 1, rng.u32() as u64] {
                let off = B::GENERATOR.exp_vartime(B::pi(power as u128));
                if dom.get_ce_x_power_at(step, power, off) != x.exp_vartime(B::pi(power as u128)) {
                    bad("get_ce_x_power_at", st);
                    break;
                }
            }
        }
        x *= g;
    }
    // the column-batched and segmented LDE over this domain (constraint-evaluation domain possibly smaller than
    // the LDE domain): both must return the evaluations over the whole LDE domain, offset * w_lde^i
    {
        let ncols = rng.range(1, 4);
        let polys = ColMatrix::new((0..ncols).map(|_| (0..n).map(|_| B::from_res(rng.u128() % B::FP.p)).collect::<Vec<B>>()).collect());
        let big = domain::<B>(n * blowup, B::GENERATOR);
        let cm = polys.evaluate_columns_over(&dom);
        let rm = RowMatrix::<B>::evaluate_polys_over::<8>(&polys, &dom);
        if cm.num_rows() != n * blowup || cm.num_cols() != ncols || rm.num_rows() != n * blowup || rm.num_cols() != ncols {
            bad("lde-over-air-domain:shape", st);
        } else {
            for k in 0..12 {
                let (c, r) = if k < 2 { (0, [0, n * blowup - 1][k]) } else { (rng.usize(ncols), rng.usize(n * blowup)) };
                let want = p_eval::<B, B>(polys.get_column(c), big[r]);
                if cm.get(c, r) != want || rm.get(c, r) != want {
                    bad("lde-over-air-domain:value", st);
                    break;
                }
            }
        }
    }
    st.evals += 1;
    st.count(&format!("{t}.stark_domain_of_air"));
    if ce < n * blowup {
        st.count(&format!("{t}.stark_domain_of_air.ce_smaller_than_lde"));
    }
}

fn drive<B: Fld, E: FieldElement<BaseField = B>>(run: &Run, reps: u64, max_log: u32) {
    let t = type_name::<B, E>();
    let limit = if run.quick() { 1 << 18 } else { 1 << 21 };
    run.par(&format!("{t}-fft"), reps * max_log as u64, |i, rng, st| {
        let log_n = 1 + (i % max_log as u64) as u32;
        transforms::<B, E>(rng, st, log_n, limit);
        st.case(wfv::fnv(format!("{t}f{i}").as_bytes()), true);
        st.sample(&format!("{t}-fft"), || J::obj(vec![("type", J::s(&t)), ("size", J::i(1u64 << log_n)), ("ops", J::s("evaluate_poly, serial_fft, interpolate_poly, evaluate_poly_with_offset, interpolate_poly_with_offset, infer_degree, twiddles"))]));
    });
    let widths: [usize; 14] = [1, 2, 3, 7, 8, 9, 15, 16, 17, 31, 64, 85, 254, 255];
    run.par(&format!("{t}-matrix"), reps * widths.len() as u64 / 2, |i, rng, st| {
        let cols = widths[i as usize % widths.len()];
        let max_mlog = if cols > 64 { 6 } else { 9 };
        let log_n = rng.range(1, max_mlog) as u32;
        match i % 3 {
            0 => matrices::<B, E, 8>(rng, st, cols, log_n, limit / 16),
            1 => matrices::<B, E, 4>(rng, st, cols, log_n, limit / 16),
            _ => matrices::<B, E, 1>(rng, st, cols, log_n, limit / 16),
        }
        st.case(wfv::fnv(format!("{t}m{i}").as_bytes()), true);
        st.sample(&format!("{t}-matrix"), || J::obj(vec![("type", J::s(&t)), ("columns", J::i(cols)), ("trace_length", J::i(1u64 << log_n))]));
    });
}

fn main() {
    let run = Run::start("C09");
    type B64 = f64::BaseElement;
    type B62 = f62::BaseElement;
    type B128 = f128::BaseElement;
    run.seq("permute", 1, |_, _, st| permute_index_check(st));
    let reps = run.size(24, 600).max(4);
    let max_log = if run.quick() { 12 } else { 14 };
    drive::<B64, B64>(&run, reps, max_log);
    drive::<B62, B62>(&run, reps, max_log);
    drive::<B128, B128>(&run, reps, max_log);
    run.par("stark-domain", reps * 20, |i, rng, st| {
        match i % 3 {
            0 => stark_domain_of_air::<B64>(rng, st),
            1 => stark_domain_of_air::<B62>(rng, st),
            _ => stark_domain_of_air::<B128>(rng, st),
        }
        st.case(wfv::fnv(format!("sd{i}").as_bytes()), true);
    });
    drive::<B64, QuadExtension<B64>>(&run, reps, max_log);
    drive::<B64, CubeExtension<B64>>(&run, reps, max_log);
    drive::<B62, QuadExtension<B62>>(&run, reps, max_log);
    drive::<B62, CubeExtension<B62>>(&run, reps, max_log);
    drive::<B128, QuadExtension<B128>>(&run, reps, max_log);
    let mut require = vec![("permute_index.sizes".to_string(), 1), ("f64.stark_domain_of_air".to_string(), 20), ("f64.stark_domain_of_air.ce_smaller_than_lde".to_string(), 5)];
    for t in ["f64", "f62", "f128", "f64^2", "f64^3", "f62^2", "f62^3", "f128^2"] {
        require.push((format!("{t}.size2^1"), 1));
        require.push((format!("{t}.size2^10"), 1));
        require.push((format!("{t}.size2^11"), 1));
        require.push((format!("{t}.matrix"), 10));
        require.push((format!("{t}.matrix.wide"), 1));
    }
    run.finish(Finish {
        rule: "per case one size 2^k (k cycles over 1..max) and polynomial (random / low degree / monomial): evaluate_poly, serial_fft, interpolate_poly, evaluate_poly_with_offset (offset 1/generator/random, blowup 1..128), interpolate_poly_with_offset, infer_degree, twiddles vs direct evaluation at explicitly computed points (all points while n*deg <= limit, boundary+sampled points above); matrices of {1,2,3,7,8,9,15,16,17,31,64,85,254,255} columns, segment widths N in {8,4,1}: interpolate_columns, evaluate_polys(_over)<N>, evaluate_columns_over, evaluate_columns_at, StarkDomain accessors; StarkDomain::new(air) for random computation descriptions with LDE blowup = 1..8 x constraint-evaluation blowup (sizes, generators, twiddles, get_ce_x_at on every step, get_ce_x_power_at for small / n / n/2 / random powers; evaluate_columns_over and evaluate_polys_over on that domain); row-major vs column-major LDE compared on every cell. distinct = distinct (type, size/width, generated polynomial) case".into(),
        assumptions: vec![
            "reference: sum c_i x^i with explicit powers using the library's field operations (monitored by C07/C08); domain points built by repeated multiplication from get_root_of_unity (checked in C07)".into(),
            "for sizes where all-point comparison exceeds the budget, boundary points + random points are compared and the inverse transform must reproduce the coefficients exactly".into(),
        ],
        exhaustive: false,
        require,
        extra: vec![("concurrent_feature".into(), J::B(cfg!(feature = "concurrent")))],
    });
}
