//! C14 Multi-threaded = single-threaded. The same source is built without and with the
//! `concurrent` feature. `--dump` prints one line per deterministic result (name, parameters, hash
//! of the serialized result); the driver (concurrent build) runs the serial binary once and itself
//! under many thread-pool sizes (also pinned to 1 and 2 CPUs), and compares the dumps line by line.
//! Proofs produced by the concurrent build must verify. The dump mode is also what runs under
//! TSan, valgrind memcheck and Miri.
use std::{collections::BTreeMap, process::Command, sync::Arc};

use winter_air::{FieldExtension, ProofOptions};
use winter_crypto::{
    hashers::{Blake3_256, Rp64_256},
    Digest, ElementHasher, Hasher, MerkleTree,
};
use winter_fri::folding;
use winter_math::{
    add_in_place, batch_inversion, fft,
    fields::{f128, f62, f64, QuadExtension},
    get_power_series, get_power_series_with_offset, mul_acc, FieldElement, StarkField,
};
use winter_prover::{
    matrix::{ColMatrix, RowMatrix},
    StarkDomain,
};
use winter_utils::{transpose_slice, Serializable};
use winter_verifier::AcceptableOptions;
use wfv::{
    fields::Fld,
    gen::*,
    genair::*,
    stark::{self, Fd, Hs, Instance, Proved},
    Finish, Rng, Run, State, J,
};

fn h<E: FieldElement>(v: &[E]) -> String {
    let mut b = Vec::new();
    for e in v {
        e.write_into(&mut b);
    }
    format!("{:016x}", wfv::fnv(&b) ^ (b.len() as u64).rotate_left(40))
}

struct Dump {
    seed: u64,
    small: bool,
    lines: Vec<String>,
}
impl Dump {
    fn rng(&self, name: &str) -> Rng {
        Rng::derive(self.seed, "C14", wfv::fnv(name.as_bytes()))
    }
    fn put(&mut self, name: String, digest: String) {
        self.lines.push(format!("{name}\t{digest}"));
    }
}

fn math_workloads<B: Fld, E: FieldElement<BaseField = B> + winter_math::ExtensionOf<B>>(d: &mut Dump) {
    let t = type_name::<B, E>();
    let sizes: &[usize] = if d.small { &[64, 1024, 2048] } else { &[512, 1024, 2048, 4096, 8192, 32768] };
    for &n in sizes {
        let mut rng = d.rng(&format!("{t}fft{n}"));
        let p = rand_vec::<B, E>(&mut rng, n);
        let tw = fft::get_twiddles::<B>(n);
        let itw = fft::get_inv_twiddles::<B>(n);
        d.put(format!("{t}.get_twiddles n={n}"), h(&tw));
        let mut v = p.clone();
        fft::evaluate_poly(&mut v, &tw);
        d.put(format!("{t}.evaluate_poly n={n}"), h(&v));
        let ev = fft::evaluate_poly_with_offset(&p, &tw, B::GENERATOR, 4);
        d.put(format!("{t}.evaluate_poly_with_offset n={n} blowup=4"), h(&ev));
        if !d.small {
            for blowup in [2usize, 8, 16] {
                let off = B::GENERATOR.exp((1 + rng.below(1000) as u64).into());
                let ev = fft::evaluate_poly_with_offset(&p, &tw, off, blowup);
                d.put(format!("{t}.evaluate_poly_with_offset n={n} blowup={blowup} random offset"), h(&ev));
            }
            d.put(format!("{t}.get_inv_twiddles n={n}"), h(&itw));
            let mut c = v.clone();
            let off = B::GENERATOR.exp((1 + rng.below(1000) as u64).into());
            fft::interpolate_poly_with_offset(&mut c, &itw, off);
            d.put(format!("{t}.interpolate_poly_with_offset n={n} random offset"), h(&c));
            let mut c = p.clone();
            fft::serial_fft(&mut c, &tw);
            d.put(format!("{t}.serial_fft n={n}"), h(&c));
        }
        let mut c = v.clone();
        fft::interpolate_poly(&mut c, &itw);
        d.put(format!("{t}.interpolate_poly n={n}"), h(&c));
        let mut c = v.clone();
        fft::interpolate_poly_with_offset(&mut c, &itw, B::GENERATOR);
        d.put(format!("{t}.interpolate_poly_with_offset n={n}"), h(&c));
    }
    // short polynomials extended by large blowups (the shape of the DEEP composition of a short trace): fewer
    // coefficients than worker threads, results on both sides of the 1024-element thresholds
    if !d.small {
        for &n in &[2usize, 4, 8, 16, 32, 64, 128, 256] {
            let mut rng = d.rng(&format!("{t}short{n}"));
            let p = rand_vec::<B, E>(&mut rng, n);
            let tw = fft::get_twiddles::<B>(n);
            for blowup in [8usize, 32, 64, 128] {
                let ev = fft::evaluate_poly_with_offset(&p, &tw, B::GENERATOR, blowup);
                d.put(format!("{t}.evaluate_poly_with_offset n={n} blowup={blowup} (short polynomial)"), h(&ev));
            }
        }
    }
    let lens: &[usize] = if d.small { &[100, 1025] } else { &[1000, 1023, 1024, 1025, 1027, 2047, 3001, 5000, 8191, 10007, 16384, 65537] };
    for &n in lens {
        let mut rng = d.rng(&format!("{t}util{n}"));
        let b = rand_el::<B, E>(&mut rng);
        let s = rand_el::<B, E>(&mut rng);
        d.put(format!("{t}.get_power_series n={n}"), h(&get_power_series(b, n)));
        d.put(format!("{t}.get_power_series_with_offset n={n}"), h(&get_power_series_with_offset(b, s, n)));
        let mut v = rand_vec::<B, E>(&mut rng, n);
        for k in (0..n).step_by(97) {
            v[k] = E::ZERO;
        }
        v[n - 1] = E::ZERO;
        d.put(format!("{t}.batch_inversion(with zeros) n={n}"), h(&batch_inversion(&v)));
        let mut a = rand_vec::<B, E>(&mut rng, n);
        let bb = rand_vec::<B, E>(&mut rng, n);
        add_in_place(&mut a, &bb);
        d.put(format!("{t}.add_in_place n={n}"), h(&a));
        let base = rand_vec::<B, B>(&mut rng, n);
        mul_acc::<B, E>(&mut a, &base, s);
        d.put(format!("{t}.mul_acc n={n}"), h(&a));
        if n % 4 == 0 {
            let tr: Vec<[E; 4]> = transpose_slice(&a);
            d.put(format!("{t}.transpose_slice<4> n={n}"), h(&tr.concat()));
            let folded = folding::apply_drp(&tr, B::GENERATOR, s);
            d.put(format!("{t}.apply_drp<4> n={n}"), h(&folded));
        }
    }
}

fn merkle_workloads<B: Fld, H: ElementHasher<BaseField = B>>(d: &mut Dump, hname: &str) {
    let sizes: &[usize] = if d.small { &[64, 2048] } else { &[512, 1024, 2048, 4096, 16384] };
    for &n in sizes {
        let mut rng = d.rng(&format!("{hname}merkle{n}"));
        let vals: Vec<[B; 4]> = (0..n).map(|_| [rand_el::<B, B>(&mut rng), rand_el::<B, B>(&mut rng), B::ONE, B::ZERO]).collect();
        let leaves = winter_fri::utils::hash_values::<H, B, 4>(&vals);
        let lb: Vec<u8> = leaves.iter().flat_map(|x| x.as_bytes()).collect();
        d.put(format!("{hname}.hash_values n={n}"), format!("{:016x}", wfv::fnv(&lb)));
        let tree = MerkleTree::<H>::new(leaves).unwrap();
        // every node of the tree is visible through the authentication paths
        let mut acc = Vec::new();
        for i in (0..n).step_by((n / 64).max(1)) {
            for x in tree.prove(i).unwrap() {
                acc.extend_from_slice(&x.as_bytes());
            }
        }
        d.put(format!("{hname}.MerkleTree n={n} root"), format!("{:016x}", wfv::fnv(&tree.root().as_bytes())));
        d.put(format!("{hname}.MerkleTree n={n} paths"), format!("{:016x}", wfv::fnv(&acc)));
    }
}

fn matrix_workloads<B: Fld, E: FieldElement<BaseField = B>, H: ElementHasher<BaseField = B>>(d: &mut Dump) {
    let t = type_name::<B, E>();
    // (columns, trace length, blowup): short and wide, and long and narrow
    let shapes: &[(usize, usize, usize)] = if d.small { &[(254, 16, 2), (255, 8, 4), (3, 512, 2)] } else { &[(254, 8, 2), (255, 8, 4), (254, 16, 2), (200, 16, 4), (85, 8, 8), (64, 32, 2), (9, 128, 8), (3, 1024, 2), (2, 4096, 2), (17, 512, 4)] };
    for &(cols, n, blowup) in shapes {
        let mut rng = d.rng(&format!("{t}matrix{cols}x{n}x{blowup}"));
        let polys = ColMatrix::new((0..cols).map(|_| rand_vec::<B, E>(&mut rng, n)).collect());
        let dom = StarkDomain::from_twiddles(fft::get_twiddles::<B>(n), blowup, B::GENERATOR);
        let rm = RowMatrix::<E>::evaluate_polys_over::<8>(&polys, &dom);
        d.put(format!("{t}.RowMatrix::evaluate_polys_over cols={cols} n={n} blowup={blowup}"), h(rm.data()));
        let tree = rm.commit_to_rows::<H>();
        d.put(format!("{t}.RowMatrix::commit_to_rows cols={cols} n={n} blowup={blowup}"), format!("{:016x}", wfv::fnv(&tree.root().as_bytes())));
        let cm = polys.evaluate_columns_over(&dom);
        let mut flat = Vec::new();
        for c in 0..cols {
            flat.extend_from_slice(cm.get_column(c));
        }
        d.put(format!("{t}.ColMatrix::evaluate_columns_over cols={cols} n={n} blowup={blowup}"), h(&flat));
        let ip = cm.interpolate_columns();
        let mut flat = Vec::new();
        for c in 0..cols {
            flat.extend_from_slice(ip.get_column(c));
        }
        d.put(format!("{t}.ColMatrix::interpolate_columns cols={cols} n={n} blowup={blowup}"), h(&flat));
        let tree = cm.commit_to_rows::<H>();
        d.put(format!("{t}.ColMatrix::commit_to_rows cols={cols} n={n} blowup={blowup}"), format!("{:016x}", wfv::fnv(&tree.root().as_bytes())));
        let x = rand_vec::<B, E>(&mut rng, 1)[0];
        d.put(format!("{t}.ColMatrix::evaluate_columns_at cols={cols} n={n}"), h(&polys.evaluate_columns_at(x)));
        let ip2 = cm.interpolate_columns_into();
        let mut flat = Vec::new();
        for c in 0..cols {
            flat.extend_from_slice(ip2.get_column(c));
        }
        d.put(format!("{t}.ColMatrix::interpolate_columns_into cols={cols} n={n} blowup={blowup}"), h(&flat));
    }
}

fn trace_table_workloads<B: Fld>(d: &mut Dump, t: &str) {
    // (width, length, fragment length)
    let shapes: &[(usize, usize, usize)] = if d.small { &[(3, 64, 2), (2, 256, 32)] } else { &[(3, 64, 2), (5, 1024, 2), (2, 4096, 64), (17, 2048, 2048), (255, 16, 4), (4, 8192, 1024)] };
    for &(width, len, frag) in shapes {
        let mut rng = d.rng(&format!("{t}tracetable{width}x{len}x{frag}"));
        let k = rand_el::<B, B>(&mut rng);
        let mut table = winter_prover::TraceTable::<B>::new(width, len);
        #[cfg(feature = "concurrent")]
        use winter_utils::iterators::*;
        table.fragments(frag).for_each(|mut f| {
            let off = f.offset() as u64;
            let idx = f.index() as u64;
            f.fill(
                |state| {
                    for (c, s) in state.iter_mut().enumerate() {
                        *s = k + B::from((off * 31 + c as u64) as u32) + B::from(idx as u32);
                    }
                },
                |step, state| {
                    for c in 0..state.len() {
                        let nxt = state[(c + 1) % state.len()];
                        state[c] = state[c] * state[c] + nxt + B::from(step as u32);
                    }
                },
            );
        });
        let mut flat = Vec::new();
        for c in 0..width {
            flat.extend_from_slice(table.get_column(c));
        }
        d.put(format!("{t}.TraceTable::fragments width={width} len={len} fragment={frag}"), h(&flat));
    }
}

fn proof_workloads(d: &mut Dump) {
    // (field, hasher, ext, log_n, width, degree, blowup, aux, grinding)
    type Cfg = (Fd, Hs, FieldExtension, u32, usize, u32, usize, bool, u32);
    let cfgs: Vec<Cfg> = if d.small {
        vec![(Fd::F64, Hs::Blake3_256, FieldExtension::None, 4, 3, 2, 4, false, 0), (Fd::F64, Hs::Blake3_256, FieldExtension::None, 3, 254, 2, 4, false, 0), (Fd::F62, Hs::Blake3_256, FieldExtension::Quadratic, 8, 2, 2, 4, true, 0)]
    } else {
        vec![
            (Fd::F64, Hs::Blake3_256, FieldExtension::None, 3, 254, 2, 2, false, 0),  // 16 LDE rows x 254 columns
            (Fd::F64, Hs::Blake3_256, FieldExtension::None, 3, 254, 2, 4, false, 0),  // 32 LDE rows
            (Fd::F64, Hs::Rp64_256, FieldExtension::Cubic, 4, 60, 2, 2, true, 0),    // wide extension aux segment
            (Fd::F62, Hs::Blake3_256, FieldExtension::Quadratic, 7, 5, 3, 4, true, 0), // 512 LDE rows
            (Fd::F62, Hs::Rp62_248, FieldExtension::None, 8, 3, 2, 4, false, 0),       // 1024 LDE rows
            (Fd::F128, Hs::Blake3_256, FieldExtension::None, 9, 2, 2, 4, false, 4),    // 2048 LDE rows, grinding
            (Fd::F64, Hs::Blake3_256, FieldExtension::Quadratic, 11, 2, 5, 4, false, 0), // ce domain 8192 rows
            (Fd::F64, Hs::Blake3_256, FieldExtension::None, 12, 1, 3, 2, false, 0),    // ce domain 8192, lde 8192
            (Fd::F128, Hs::Blake3_256, FieldExtension::Quadratic, 10, 4, 2, 8, true, 0),
            // fragmented constraint evaluation (ce domain of 8192 rows) of main AND auxiliary rules that read
            // periodic columns with long and short cycles (configs 9.. get periodic columns, see below)
            (Fd::F64, Hs::Blake3_256, FieldExtension::Quadratic, 12, 2, 2, 2, true, 0),
            (Fd::F128, Hs::Blake3_256, FieldExtension::None, 11, 3, 3, 4, true, 0),
            (Fd::F62, Hs::Blake3_256, FieldExtension::Cubic, 13, 2, 2, 2, true, 0),    // ce domain 16384
        ]
    };
    for (k, (fd, hs, ext, log_n, width, deg, blowup, aux, grind)) in cfgs.into_iter().enumerate() {
        let name = format!("proof#{k} {fd:?}/{hs:?}/{ext:?} n=2^{log_n} width={width} degree={deg} blowup={blowup} aux={aux} grinding={grind}");
        let mut rng = d.rng(&name);
        let n = 1usize << log_n;
        let periodic: Vec<Per> = if k >= 9 || (d.small && k == 2) {
            // cycle lengths n/4 (longer than n / threads for most pools), n and 8
            [n / 4, n, 8].iter().enumerate().map(|(q, c)| Per::Values((0..*c).map(|i| (1 + (i * (q + 3) + q) % 997) as u32).collect())).collect()
        } else {
            vec![]
        };
        let nper = periodic.len();
        let shape = Shape {
            log_n,
            rules: (0..width).map(|c| Rule::Pow { d: deg, a: 1 + (c as u32 % 3), b: 1, src: (c + 1) % width, per: if nper > 0 { Some(c % nper) } else { None } }).collect(),
            periodic,
            exemptions: 1 + k % 2,
            asserts: vec![ASpec { col: 0, kind: AKind::Single(0) }, ASpec { col: width - 1, kind: AKind::Single((1 << log_n) - 1) }],
            aux: if aux { Some(AuxShape { cols: 3, rands: 2, lagrange: k % 2 == 0 }) } else { None },
            meta: vec![],
        };
        let blowup = blowup.max(shape.min_blowup());
        let lde = (1usize << log_n) * blowup;
        let mut fold = 4;
        while !wfv::frih::schedule_well_formed(lde, &winter_fri::FriOptions::new(blowup, fold, 7)) && fold > 2 {
            fold /= 2;
        }
        let options = ProofOptions::new(12.min(lde - 1), blowup, grind, ext, fold, 7);
        let shape = Arc::new(shape);
        let (cols, values) = stark::gen_trace(fd, &shape, &mut rng, TraceKind::Random);
        let inst = Instance { fd, hs, shape: shape.clone(), options, cols, values };
        match stark::prove(&inst, false) {
            Proved::Ok(p) => {
                d.put(format!("{name} commitments(trace, constraint, FRI layers)"), format!("{:016x}", wfv::fnv(&p.commitments.to_bytes())));
                d.put(format!("{name} ood_frame"), format!("{:016x}", wfv::fnv(&p.ood_frame.to_bytes())));
                d.put(format!("{name} context"), format!("{:016x}", wfv::fnv(&p.context.to_bytes())));
                let v = stark::verify_proof(fd, hs, &shape, &inst.values, p, &AcceptableOptions::MinConjecturedSecurity(0), false);
                d.put(format!("{name} verify"), format!("{v:?}"));
            },
            Proved::Err(e) => d.put(format!("{name} prove"), format!("error {e}")),
            Proved::Panic(p) => d.put(format!("{name} prove"), format!("panic {}", p.sig)),
        }
    }
}

fn dump(seed: u64, small: bool) -> Vec<String> {
    type B62 = f62::BaseElement;
    type B64 = f64::BaseElement;
    type B128 = f128::BaseElement;
    let mut d = Dump { seed, small, lines: Vec::new() };
    math_workloads::<B64, B64>(&mut d);
    if !small {
        math_workloads::<B62, B62>(&mut d);
        math_workloads::<B128, B128>(&mut d);
        math_workloads::<B64, QuadExtension<B64>>(&mut d);
    }
    merkle_workloads::<B64, Blake3_256<B64>>(&mut d, "Blake3_256");
    if !small {
        merkle_workloads::<B64, Rp64_256>(&mut d, "Rp64_256");
    }
    matrix_workloads::<B64, B64, Blake3_256<B64>>(&mut d);
    if !small {
        matrix_workloads::<B64, winter_math::fields::CubeExtension<B64>, Blake3_256<B64>>(&mut d);
        matrix_workloads::<B128, QuadExtension<B128>, Blake3_256<B128>>(&mut d);
    }
    trace_table_workloads::<B64>(&mut d, "f64");
    if !small {
        trace_table_workloads::<B128>(&mut d, "f128");
    }
    proof_workloads(&mut d);
    d.lines
}

fn run_dump(exe: &std::path::Path, seed: u64, threads: Option<usize>, taskset: Option<&str>) -> Result<Vec<String>, String> {
    let mut cmd = match taskset {
        Some(cpus) => {
            let mut c = Command::new("taskset");
            c.args(["-c", cpus]).arg(exe);
            c
        },
        None => Command::new(exe),
    };
    cmd.arg("--dump").env("VERIF_SEED", seed.to_string());
    if let Some(t) = threads {
        cmd.env("RAYON_NUM_THREADS", t.to_string());
    }
    let out = cmd.output().map_err(|e| format!("cannot run {exe:?}: {e}"))?;
    if !out.status.success() {
        return Err(format!("exit {:?}: {}", out.status, String::from_utf8_lossy(&out.stderr).lines().rev().take(3).collect::<Vec<_>>().join(" | ")));
    }
    Ok(String::from_utf8_lossy(&out.stdout).lines().map(|s| s.to_string()).collect())
}

fn main() {
    let args: Vec<String> = std::env::args().collect();
    let seed: u64 = std::env::var("VERIF_SEED").ok().and_then(|s| s.parse().ok()).unwrap_or(1);
    if args.iter().any(|a| a == "--dump") {
        let small = std::env::var("VERIF_C14_SMALL").is_ok();
        for l in dump(seed, small) {
            println!("{l}");
        }
        return;
    }
    let run = Run::start("C14");
    // sanitizer stages only execute the workloads (reports are collected by ./check)
    if let Ok(stage) = std::env::var("VERIF_STAGE") {
        if stage != "pools" {
            let small = std::env::var("VERIF_C14_SMALL").is_ok();
            let lines = dump(run.seed, small);
            let mut st = State::new();
            for (k, l) in lines.iter().enumerate() {
                st.case(wfv::fnv(l.as_bytes()) ^ k as u64, true);
                if l.contains(" verify\t") && !l.ends_with("Ok(Ok(()))") {
                    st.violation("concurrent-proof-not-accepted", J::s(l));
                }
            }
            st.add("results_computed_under_sanitizer", lines.len() as u64);
            st.sample("result", || J::s(lines[0].clone()));
            st.sample("result2", || J::s(lines[lines.len() / 2].clone()));
            run.merge(st);
            run.finish(Finish {
                rule: format!("stage {stage}: the dump workloads (transforms, power series, batch inversion, Merkle trees, row-matrix LDE, full proofs) executed once under the sanitizer / interpreter; verdict = reports collected by ./check (data races, uninitialised reads, invalid accesses) + proofs verify"),
                assumptions: vec!["the sanitizer understands rayon's synchronisation (no false reports observed)".into()],
                exhaustive: false,
                require: vec![("results_computed_under_sanitizer".into(), 10)],
                extra: vec![("concurrent_feature".into(), J::B(cfg!(feature = "concurrent")))],
            });
        }
    }
    let serial_exe = std::path::PathBuf::from(std::env::var("VERIF_BIN_REL").expect("VERIF_BIN_REL (serial build of c14)"));
    let me = std::env::current_exe().unwrap();
    let mut st = State::new();
    if !cfg!(feature = "concurrent") {
        st.inconclusive.push("driver must be the concurrent build".into());
    }
    let reference = match run_dump(&serial_exe, run.seed, None, None) {
        Ok(r) => r,
        Err(e) => {
            st.inconclusive.push(format!("serial reference run failed: {e}"));
            run.merge(st);
            run.finish(Finish { rule: String::new(), assumptions: vec![], exhaustive: false, require: vec![], extra: vec![] });
        },
    };
    let refmap: BTreeMap<&str, &str> = reference.iter().filter_map(|l| l.split_once('\t')).collect();
    let mut pools: Vec<(usize, Option<&str>)> = [1usize, 2, 3, 4, 5, 7, 8, 12, 16, 24, 32, 48, 64].iter().map(|t| (*t, None)).collect();
    // oversubscription: many workers pinned to one or two CPUs
    pools.push((8, Some("0")));
    pools.push((16, Some("0,1")));
    pools.push((33, Some("0-2")));
    let reps = if run.quick() { 1 } else { 4 };
    for rep in 0..reps {
        // the configurations are independent processes: run them on a few OS threads
        let results: Vec<((usize, Option<&str>), Result<Vec<String>, String>)> = std::thread::scope(|sc| {
            let hs: Vec<_> = pools.iter().map(|p| { let me = &me; let seed = run.seed; let p = *p; sc.spawn(move || (p, run_dump(me, seed, Some(p.0), p.1))) }).collect();
            hs.into_iter().map(|h| h.join().unwrap()).collect()
        });
        for ((threads, pin), r) in results {
            let cfg = format!("threads={threads}{}", pin.map(|p| format!(" pinned to cpus {p}")).unwrap_or_default());
            match r {
                Err(e) => st.violation(format!("concurrent-run-failed:{}", e.chars().filter(|c| !c.is_ascii_digit()).take(60).collect::<String>()), J::obj(vec![("config", J::s(&cfg)), ("error", J::s(e))])),
                Ok(lines) => {
                    if lines.len() != reference.len() {
                        st.violation("dump-length-differs", J::obj(vec![("config", J::s(&cfg)), ("serial", J::i(reference.len())), ("concurrent", J::i(lines.len()))]));
                    }
                    for l in &lines {
                        let Some((name, dig)) = l.split_once('\t') else { continue };
                        st.evals += 1;
                        st.distinct.insert(wfv::fnv(format!("{name}{cfg}").as_bytes()));
                        match refmap.get(name) {
                            Some(r) if *r == dig => {},
                            Some(r) => {
                                let generic: String = name.split(' ').next().unwrap_or(name).to_string();
                                st.violation(format!("differs-from-single-threaded:{generic}"), J::obj(vec![("result", J::s(name)), ("config", J::s(&cfg)), ("serial", J::s(*r)), ("concurrent", J::s(dig)), ("repetition", J::i(rep))]));
                            },
                            None => st.violation("result-missing-in-serial-dump", J::s(name)),
                        }
                        if name.ends_with(" verify") && dig != "Ok(Ok(()))" {
                            st.violation("concurrent-proof-not-accepted", J::obj(vec![("result", J::s(name)), ("config", J::s(&cfg)), ("verdict", J::s(dig))]));
                        }
                        if name.ends_with(" verify") {
                            st.count("proofs_from_concurrent_build_verified");
                        }
                    }
                    st.count(&format!("pool.{}", cfg.replace(' ', "_")));
                },
            }
        }
    }
    st.add("results_per_dump", reference.len() as u64);
    st.sample("dump-line", || J::s(reference[0].clone()));
    st.sample("dump-line-proof", || J::s(reference[reference.len() - 2].clone()));
    run.merge(st);
    let mut require: Vec<(String, u64)> = vec![("results_per_dump".into(), 100), ("proofs_from_concurrent_build_verified".into(), 16 * 5)];
    for t in [1, 2, 3, 4, 5, 7, 8, 12, 16, 24, 32, 48, 64] {
        require.push((format!("pool.threads={t}"), 1));
    }
    run.finish(Finish {
        rule: "the dump (one line per result: transforms of 512..8192 points over 4 field types, twiddles, power series, batch inversion with zeros, add_in_place, mul_acc, transpose_slice, apply_drp, hash_values, Merkle trees of 512..16384 leaves for two hashers, RowMatrix/ColMatrix LDE of short-wide (254 or 255 columns x 16/32/64 rows, extension columns) and long-narrow matrices with row commitments, and 9 full proofs whose commitments (trace, constraint, FRI layers), OOD frame and context are dumped and which are then verified) is produced by the serial build and by the concurrent build under 13 pool sizes 1..64 plus 3 oversubscribed CPU pinnings; every line must be identical to the serial one and every concurrent proof must verify. The nonce and query data are excluded. distinct = distinct (result, pool configuration)".into(),
        assumptions: vec![
            "only the schedules produced by these pool sizes / pinnings / repetitions are observed".into(),
            "results are compared through a 64-bit hash of their serialization".into(),
        ],
        exhaustive: false,
        require,
        extra: vec![("concurrent_feature".into(), J::B(cfg!(feature = "concurrent")))],
    });
}
