//! C07 Base fields: every public operation, on boundary-directed and random operands and on
//! short random programs, is compared step by step with the u128 reference; equality,
//! serialization and the documented representation range are asserted on every intermediate.

use winter_math::FieldElement;
use winter_utils::{Randomizable, Serializable, SliceReader};
use wfv::{
    fields::{boundary_elements, res_of_raw, Fld},
    Finish, Rng, Run, State, J,
};

fn le_bytes(v: u128, n: usize) -> Vec<u8> {
    v.to_le_bytes()[..n].to_vec()
}

/// the monitor applied to every produced element
fn check<B: Fld>(st: &mut State, op: &str, inputs: &[u128], got: B, want: u128) {
    let field = B::NAME;
    let bad = |kind: &str, st: &mut State| {
        st.violation(
            format!("{field}:{op}:{kind}"),
            J::obj(vec![
                ("field", J::s(field)),
                ("op", J::s(op)),
                ("inputs_raw_or_res", J::A(inputs.iter().map(|x| J::s(x.to_string())).collect())),
                ("got_residue", J::s(got.res().to_string())),
                ("got_raw", J::s(got.raw().to_string())),
                ("want_residue", J::s(want.to_string())),
            ]),
        )
    };
    if got.res() != want {
        bad("value", st);
        return;
    }
    if got.raw() >= B::RAW_LIMIT {
        bad("rep-range", st);
    }
    let canon = B::from_res(want);
    if !(got == canon) || !(canon == got) {
        bad("eq", st);
    }
    if got.to_bytes() != le_bytes(want, B::ELEMENT_BYTES) {
        bad("bytes", st);
    }
}

#[derive(Clone, Copy)]
struct Reg<B: Fld> {
    e: B,
    r: u128,
}

fn mk<B: Fld>(e: B) -> Reg<B> {
    // the residue of a directly constructed element is defined by its internal image
    Reg { e, r: res_of_raw::<B>(e.raw()) }
}

const BIN_OPS: [&str; 8] = ["add", "sub", "mul", "div", "add_assign", "sub_assign", "mul_assign", "div_assign"];
const UN_OPS: [&str; 9] = ["neg", "double", "square", "cube", "inv", "conjugate", "exp7", "roundtrip", "as_int_new"];

fn bin_op<B: Fld>(op: &str, a: B, b: B) -> B {
    match op {
        "add" => a + b,
        "sub" => a - b,
        "mul" => a * b,
        "div" => a / b,
        "add_assign" => {
            let mut x = a;
            x += b;
            x
        },
        "sub_assign" => {
            let mut x = a;
            x -= b;
            x
        },
        "mul_assign" => {
            let mut x = a;
            x *= b;
            x
        },
        "div_assign" => {
            let mut x = a;
            x /= b;
            x
        },
        _ => unreachable!(),
    }
}
fn bin_ref<B: Fld>(op: &str, a: u128, b: u128, binv: Option<u128>) -> u128 {
    let f = B::FP;
    match op {
        "add" | "add_assign" => f.add(a, b),
        "sub" | "sub_assign" => f.sub(a, b),
        "mul" | "mul_assign" => f.mul(a, b),
        "div" | "div_assign" => f.mul(a, binv.unwrap_or_else(|| f.inv(b))),
        _ => unreachable!(),
    }
}
fn un_op<B: Fld>(op: &str, a: B) -> Option<B> {
    Some(match op {
        "neg" => -a,
        "double" => a.double(),
        "square" => a.square(),
        "cube" => a.cube(),
        "inv" => a.inv(),
        "conjugate" => a.conjugate(),
        "exp7" => return a.exp7_opt(),
        "roundtrip" => B::read_from_bytes(&a.to_bytes()).ok()?,
        "as_int_new" => B::from_res(B::pi_u128(a.as_int())),
        _ => unreachable!(),
    })
}
fn un_ref<B: Fld>(op: &str, a: u128) -> u128 {
    let f = B::FP;
    match op {
        "neg" => f.neg(a),
        "double" => f.add(a, a),
        "square" => f.mul(a, a),
        "cube" => f.mul(a, f.mul(a, a)),
        "inv" => f.inv(a),
        "conjugate" | "roundtrip" | "as_int_new" => a,
        "exp7" => f.pow(a, 7),
        _ => unreachable!(),
    }
}

fn boundary_exponents(p: u128, bits: u32) -> Vec<u128> {
    let max = if bits > 64 { u128::MAX } else { u64::MAX as u128 };
    let mut v = vec![0, 1, 2, 3, 4, 7, 8, 255, 256, p - 2, p - 1, p % max, (p % max) + 1, (p - 1) / 2, max, max - 1, 1 << 32, (1u128 << 63), (1u128 << 63) - 1];
    v.retain(|x| *x <= max);
    v.sort();
    v.dedup();
    v
}

// WORKLOAD 1: all pairs of the boundary set
// ------------------------------------------------------------------------------------------------
fn boundary_pairs<B: Fld>(run: &Run) {
    let elems: Vec<Reg<B>> = boundary_elements::<B>().into_iter().map(mk).collect();
    let f = B::FP;
    let invs: Vec<u128> = elems.iter().map(|x| f.inv(x.r)).collect();
    let n = elems.len() as u64;
    // every directly constructed element must itself be consistent
    run.seq(&format!("{}-construct", B::NAME), 1, |_, _, st| {
        for x in &elems {
            check::<B>(st, "construct", &[x.e.raw()], x.e, x.r);
            st.case(wfv::fnv(format!("{}c{}", B::NAME, x.e.raw()).as_bytes()), true);
        }
        st.add(&format!("{}.boundary_elements", B::NAME), n);
    });
    run.par(&format!("{}-pairs", B::NAME), n, |i, _rng, st| {
        let a = elems[i as usize];
        for (j, b) in elems.iter().enumerate() {
            for op in BIN_OPS {
                let got = bin_op::<B>(op, a.e, b.e);
                let want = bin_ref::<B>(op, a.r, b.r, Some(invs[j]));
                check::<B>(st, op, &[a.e.raw(), b.e.raw()], got, want);
                st.evals += 1;
            }
            // equality is residue equality
            if (a.e == b.e) != (a.r == b.r) {
                st.violation(
                    format!("{}:eq-relation", B::NAME),
                    J::obj(vec![("a_raw", J::s(a.e.raw().to_string())), ("b_raw", J::s(b.e.raw().to_string()))]),
                );
            }
            if (a.e.to_bytes() == b.e.to_bytes()) != (a.r == b.r) {
                st.violation(
                    format!("{}:bytes-relation", B::NAME),
                    J::obj(vec![("a_raw", J::s(a.e.raw().to_string())), ("b_raw", J::s(b.e.raw().to_string()))]),
                );
            }
            st.distinct.insert(wfv::fnv(format!("{}p{}:{}", B::NAME, a.e.raw(), b.e.raw()).as_bytes()));
        }
        st.add(&format!("{}.boundary_pairs", B::NAME), n);
        // unary operations and exponentiation on the boundary element
        for op in UN_OPS {
            if let Some(got) = un_op::<B>(op, a.e) {
                check::<B>(st, op, &[a.e.raw()], got, un_ref::<B>(op, a.r));
                st.evals += 1;
            }
        }
        for e in boundary_exponents(f.p, B::MODULUS_BITS) {
            let want = f.pow(a.r, e);
            check::<B>(st, "exp", &[a.e.raw(), e], a.e.exp(B::pi(e)), want);
            check::<B>(st, "exp_vartime", &[a.e.raw(), e], a.e.exp_vartime(B::pi(e)), want);
            st.evals += 2;
        }
        for k in [0u32, 1, 2, 3, 0x7FFF_FFFF, 0x8000_0000, 0xFFFF_FFFE, 0xFFFF_FFFF] {
            if let Some(got) = a.e.mul_small_opt(k) {
                check::<B>(st, "mul_small", &[a.e.raw(), k as u128], got, f.mul(a.r, k as u128));
                st.evals += 1;
            }
        }
        if i == 0 {
            st.sample("boundary-pair", || {
                J::obj(vec![
                    ("field", J::s(B::NAME)),
                    ("a_internal", J::s(elems[3].e.raw().to_string())),
                    ("b_internal", J::s(elems[elems.len() - 2].e.raw().to_string())),
                    ("ops", J::arr_s(&BIN_OPS)),
                ])
            });
        }
    });
}

// WORKLOAD 2: random programs over a register file, reference in lock-step
// ------------------------------------------------------------------------------------------------
fn random_operand<B: Fld>(rng: &mut Rng, bnd: &[B]) -> Reg<B> {
    match rng.below(4) {
        0 => mk(*rng.pick(bnd)),
        1 => {
            // random internal image
            let raw = rng.u128() % B::RAW_LIMIT;
            mk(B::from_raw(raw))
        },
        2 => {
            // small perturbation of a boundary image
            let b = rng.pick(bnd).raw();
            let d = rng.below(5) as u128;
            let raw = if rng.bool() { b.saturating_sub(d) } else { (b + d) % B::RAW_LIMIT };
            mk(B::from_raw(raw % B::RAW_LIMIT))
        },
        _ => {
            let r = rng.u128() % B::FP.p;
            Reg { e: B::from_res(r), r }
        },
    }
}

fn programs<B: Fld>(run: &Run, n: u64) {
    let bnd = boundary_elements::<B>();
    let f = B::FP;
    run.par(&format!("{}-programs", B::NAME), n, |i, rng, st| {
        let mut regs: Vec<Reg<B>> = (0..6).map(|_| random_operand::<B>(rng, &bnd)).collect();
        let len = rng.range(1, 12);
        let mut trace: Vec<String> = Vec::new();
        let mut h = 0u64;
        for _ in 0..len {
            let dst = rng.usize(6);
            let a = regs[rng.usize(6)];
            let b = regs[rng.usize(6)];
            let pick = rng.below(24);
            let (name, got, want): (String, B, u128) = if pick < 10 {
                let op = BIN_OPS[rng.usize(if pick < 8 { 3 } else { 8 })];
                (op.to_string(), bin_op::<B>(op, a.e, b.e), bin_ref::<B>(op, a.r, b.r, None))
            } else if pick < 19 {
                let op = UN_OPS[rng.usize(UN_OPS.len())];
                match un_op::<B>(op, a.e) {
                    Some(g) => (op.to_string(), g, un_ref::<B>(op, a.r)),
                    None => ("double".to_string(), a.e.double(), f.add(a.r, a.r)),
                }
            } else if pick < 21 {
                let e = if rng.bool() { *rng.pick(&boundary_exponents(f.p, B::MODULUS_BITS)) } else { rng.u128() >> rng.below(120) };
                let e = if B::MODULUS_BITS <= 64 { e & (u64::MAX as u128) } else { e };
                if rng.bool() {
                    (format!("exp({e})"), a.e.exp(B::pi(e)), f.pow(a.r, e))
                } else {
                    (format!("exp_vartime({e})"), a.e.exp_vartime(B::pi(e)), f.pow(a.r, e))
                }
            } else if pick < 23 {
                let k = match rng.below(4) {
                    0 => 2,
                    1 => 0xFFFF_FFFF,
                    2 => 1 << rng.below(32),
                    _ => rng.u32(),
                };
                match a.e.mul_small_opt(k) {
                    Some(g) => (format!("mul_small({k})"), g, f.mul(a.r, k as u128)),
                    None => ("neg".to_string(), -a.e, f.neg(a.r)),
                }
            } else {
                let r = random_operand::<B>(rng, &bnd);
                ("load".to_string(), r.e, r.r)
            };
            check::<B>(st, &name.split('(').next().unwrap().to_string(), &[a.e.raw(), b.e.raw()], got, want);
            h = h.wrapping_mul(31).wrapping_add(wfv::fnv(name.as_bytes())) ^ (want as u64);
            if st.wants_sample("program") {
                trace.push(format!("r{dst} = {name} -> {want}"));
            }
            // a result that already violated the monitor is replaced by the canonical element, so
            // that later steps are not reported as consequences of the same root cause
            let ok = got.res() == want && got.raw() < B::RAW_LIMIT;
            regs[dst] = Reg { e: if ok { got } else { B::from_res(want) }, r: want };
            st.count(&format!("{}.op.{}", B::NAME, name.split('(').next().unwrap()));
        }
        // relations between all live registers
        for x in 0..6 {
            for y in 0..6 {
                if (regs[x].e == regs[y].e) != (regs[x].r == regs[y].r) {
                    st.violation(
                        format!("{}:eq-relation", B::NAME),
                        J::obj(vec![("a_raw", J::s(regs[x].e.raw().to_string())), ("b_raw", J::s(regs[y].e.raw().to_string()))]),
                    );
                }
            }
        }
        st.case(h ^ i.rotate_left(32), len >= 2);
        st.sample("program", || J::obj(vec![("field", J::s(B::NAME)), ("steps", J::arr_s(&trace))]));
    });
}

// WORKLOAD 3: conversions
// ------------------------------------------------------------------------------------------------
fn conversions<B: Fld>(run: &Run, n: u64) {
    let p = B::FP.p;
    let ints = wfv::fields::boundary_ints(p);
    let nb = B::ELEMENT_BYTES;
    let max = if nb == 8 { u64::MAX as u128 } else { u128::MAX };
    run.par(&format!("{}-conv", B::NAME), n + ints.len() as u64, |i, rng, st| {
        let v = if (i as usize) < ints.len() { ints[i as usize] & max } else if rng.bool() { rng.u128() & max } else { (p - 8 + rng.below(16) as u128) & max };
        // new(): silently reduces
        check::<B>(st, "new", &[v], B::from_res(v), v % p);
        // read_from / try_from(&[u8]) / from_random_bytes: accept exactly the canonical encodings
        let bytes = le_bytes(v, nb);
        let mut rd = SliceReader::new(&bytes);
        match B::read_from(&mut rd) {
            Ok(e) if v < p => check::<B>(st, "read_from", &[v], e, v),
            Err(_) if v >= p => {},
            _ => st.violation(format!("{}:read_from:accept-set", B::NAME), J::s(v.to_string())),
        }
        match B::try_from(bytes.as_slice()) {
            Ok(e) if v < p => check::<B>(st, "try_from_bytes", &[v], e, v),
            Err(_) if v >= p => {},
            _ => st.violation(format!("{}:try_from_bytes:accept-set", B::NAME), J::s(v.to_string())),
        }
        match B::from_random_bytes(&bytes) {
            Some(e) if v < p => check::<B>(st, "from_random_bytes", &[v], e, v),
            None if v >= p => {},
            _ => st.violation(format!("{}:from_random_bytes:accept-set", B::NAME), J::s(v.to_string())),
        }
        // wrong lengths are refused
        for l in [0usize, 1, nb - 1, nb + 1] {
            let b = vec![1u8; l];
            if B::try_from(b.as_slice()).is_ok() {
                st.violation(format!("{}:try_from_bytes:length", B::NAME), J::i(l));
            }
        }
        // padding constructor (strictly fewer bytes than an element)
        let k = rng.usize(nb);
        let short = le_bytes(v, nb)[..k].to_vec();
        let mut full = short.clone();
        full.resize(16, 0);
        let sv = u128::from_le_bytes(full.try_into().unwrap());
        if sv < p {
            check::<B>(st, "from_bytes_with_padding", &[sv], B::from_bytes_with_padding(&short), sv);
        }
        // small integer embeddings
        let s = v as u32;
        check::<B>(st, "from_u32", &[s as u128], B::from(s), s as u128 % p);
        check::<B>(st, "from_u16", &[s as u16 as u128], B::from(s as u16), s as u16 as u128);
        check::<B>(st, "from_u8", &[s as u8 as u128], B::from(s as u8), s as u8 as u128);
        // slice reinterpretation round trip of internal images
        let e = B::from_res(v % p);
        let arr = [e, e.double(), -e];
        let raw_bytes = B::elements_as_bytes(&arr);
        if raw_bytes.len() != 3 * nb {
            st.violation(format!("{}:elements_as_bytes:len", B::NAME), J::i(raw_bytes.len()));
        }
        match unsafe { B::bytes_as_elements(raw_bytes) } {
            Ok(back) if back == arr && back.as_ptr() == arr.as_ptr() => {},
            _ => st.violation(format!("{}:bytes_as_elements:roundtrip", B::NAME), J::s(v.to_string())),
        }
        // every start offset inside a 16-byte aligned buffer: the reinterpretation is granted exactly when the
        // start is aligned for the element type (and the length is a whole number of elements)
        if i % 16 == 0 {
            let store: [u128; 6] = [v, 1, 2, 3, 4, 5];
            let raw = unsafe { core::slice::from_raw_parts(store.as_ptr() as *const u8, 96) };
            for off in 0..32usize {
                let slice = &raw[off..off + 2 * nb];
                let aligned = (slice.as_ptr() as usize) % core::mem::align_of::<B>() == 0;
                match unsafe { B::bytes_as_elements(slice) } {
                    Ok(els) if aligned && els.len() == 2 && els.as_ptr() as usize == slice.as_ptr() as usize => {},
                    Err(_) if !aligned => {},
                    _ => st.violation(format!("{}:bytes_as_elements:alignment", B::NAME), J::obj(vec![("offset", J::i(off)), ("aligned_for_the_type", J::B(aligned))])),
                }
                if unsafe { B::bytes_as_elements(&raw[off..off + 2 * nb + 1]) }.is_ok() {
                    st.violation(format!("{}:bytes_as_elements:ragged-length-accepted", B::NAME), J::i(off));
                }
            }
            st.count(&format!("{}.bytes_as_elements_offsets", B::NAME));
        }
        st.case(wfv::fnv(format!("{}v{}", B::NAME, v).as_bytes()), true);
        st.count(&format!("{}.conversion_values", B::NAME));
        st.sample("conversion", || J::obj(vec![("field", J::s(B::NAME)), ("integer", J::s(v.to_string()))]));
    });
}


// WORKLOAD 4: the conversions that only concrete field types publish (integers of every width in both
// directions, fixed-size byte arrays, Display / Debug), on boundary integers and on elements with arbitrary
// internal images
// ------------------------------------------------------------------------------------------------
fn typed_conversions(run: &Run, n: u64) {
    use winter_math::fields::{f128, f62, f64};
    let ints64 = wfv::fields::boundary_ints(wfv::refmath::P64);
    let total = n + ints64.len() as u64;
    run.par("typed-conv", total, |i, rng, st| {
        let v: u128 = if (i as usize) < ints64.len() {
            ints64[i as usize]
        } else {
            match rng.below(4) {
                0 => rng.u128(),
                1 => rng.u128() >> 64,
                2 => rng.u128() >> rng.below(128),
                _ => [wfv::refmath::P64, wfv::refmath::P62, wfv::refmath::P128][rng.usize(3)].wrapping_add(rng.below(9) as u128).wrapping_sub(4),
            }
        };
        let bad = |what: &str, st: &mut State| st.violation(format!("typed:{what}"), J::s(v.to_string()));
        // ---- f64
        {
            type B = f64::BaseElement;
            let p = wfv::refmath::P64;
            // integers -> element: accepted exactly below the modulus, and then the same residue
            match B::try_from(v) {
                Ok(e) if v < p => check::<B>(st, "try_from_u128", &[v], e, v),
                Err(_) if v >= p => {},
                _ => bad("f64:try_from_u128:accept-set", st),
            }
            let v64 = v as u64;
            match B::try_from(v64) {
                Ok(e) if (v64 as u128) < p => check::<B>(st, "try_from_u64", &[v64 as u128], e, v64 as u128),
                Err(_) if (v64 as u128) >= p => {},
                _ => bad("f64:try_from_u64:accept-set", st),
            }
            match B::try_from(v64 as usize) {
                Ok(e) if (v64 as u128) < p => check::<B>(st, "try_from_usize", &[v64 as u128], e, v64 as u128),
                Err(_) if (v64 as u128) >= p => {},
                _ => bad("f64:try_from_usize:accept-set", st),
            }
            match B::try_from(v64.to_le_bytes()) {
                Ok(e) if (v64 as u128) < p => check::<B>(st, "try_from_array", &[v64 as u128], e, v64 as u128),
                Err(_) if (v64 as u128) >= p => {},
                _ => bad("f64:try_from_array:accept-set", st),
            }
            check::<B>(st, "from_bool", &[v & 1], B::from(v & 1 == 1), v & 1);
            // element -> integers, for an element with an arbitrary internal image
            let raw = (v % p) as u64;
            for e in [B::from_mont(raw), B::new(v64), B::new(v64).double(), -B::new(v64)] {
                let r = e.res();
                if u64::from(e) as u128 != r || u128::from(e) != r {
                    bad("f64:into_u64/u128", st);
                }
                if u32::try_from(e).ok().map(|x| x as u128) != (if r <= u32::MAX as u128 { Some(r) } else { None })
                    || u16::try_from(e).ok().map(|x| x as u128) != (if r <= u16::MAX as u128 { Some(r) } else { None })
                    || u8::try_from(e).ok().map(|x| x as u128) != (if r <= u8::MAX as u128 { Some(r) } else { None })
                    || bool::try_from(e).ok().map(|x| x as u128) != (if r <= 1 { Some(r) } else { None })
                {
                    bad("f64:try_into_small", st);
                }
                if format!("{e}") != r.to_string() || format!("{e:?}") != r.to_string() {
                    bad("f64:display", st);
                }
                st.evals += 1;
            }
            // small elements built through every route are the same element
            let s = (v % 256) as u8;
            let routes = [B::from(s), B::from(s as u16), B::from(s as u32), B::try_from(s as u64).unwrap(), B::try_from(s as u128).unwrap(), B::new(s as u64)];
            if routes.iter().any(|x| *x != routes[0] || x.to_bytes() != routes[0].to_bytes()) || u8::try_from(routes[0]) != Ok(s) {
                bad("f64:small-routes", st);
            }
        }
        // ---- f62
        {
            type B = f62::BaseElement;
            let p = wfv::refmath::P62;
            match B::try_from(v) {
                Ok(e) if v < p => check::<B>(st, "try_from_u128", &[v], e, v),
                Err(_) if v >= p => {},
                _ => bad("f62:try_from_u128:accept-set", st),
            }
            let v64 = v as u64;
            match B::try_from(v64) {
                Ok(e) if (v64 as u128) < p => check::<B>(st, "try_from_u64", &[v64 as u128], e, v64 as u128),
                Err(_) if (v64 as u128) >= p => {},
                _ => bad("f62:try_from_u64:accept-set", st),
            }
            match B::try_from(v64.to_le_bytes()) {
                Ok(e) if (v64 as u128) < p => check::<B>(st, "try_from_array", &[v64 as u128], e, v64 as u128),
                Err(_) if (v64 as u128) >= p => {},
                _ => bad("f62:try_from_array:accept-set", st),
            }
            let raw = v % (2 * p);
            for e in [<B as Fld>::from_raw(raw), B::new(v64), B::new(v64) + B::new(v64), -B::new(v64), B::new(v64) + (-B::new(v64))] {
                let r = e.res();
                if r >= p || u64::from(e) as u128 != r || u128::from(e) != r {
                    bad("f62:into_u64/u128", st);
                }
                if format!("{e}") != r.to_string() || format!("{e:?}") != r.to_string() {
                    bad("f62:display", st);
                }
                st.evals += 1;
            }
        }
        // ---- f128
        {
            type B = f128::BaseElement;
            let p = wfv::refmath::P128;
            match B::try_from(v) {
                Ok(e) if v < p => check::<B>(st, "try_from_u128", &[v], e, v),
                Err(_) if v >= p => {},
                _ => bad("f128:try_from_u128:accept-set", st),
            }
            let v64 = v as u64;
            check::<B>(st, "from_u64", &[v64 as u128], B::from(v64), v64 as u128);
            let e = B::new(v);
            if format!("{e}") != (v % p).to_string() || format!("{e:?}") != (v % p).to_string() {
                bad("f128:display", st);
            }
            st.evals += 1;
        }
        st.case(wfv::fnv(format!("typed{v}").as_bytes()), true);
        st.count("typed.conversion_values");
        st.sample("typed-conversion", || J::obj(vec![("integer", J::s(v.to_string()))]));
    });
}

// CONSTANTS
// ------------------------------------------------------------------------------------------------
fn is_prime_small(n: u128) -> bool {
    if n < 2 {
        return false;
    }
    let mut d = 2u128;
    while d * d <= n {
        if n % d == 0 {
            return false;
        }
        d += 1;
    }
    true
}

fn constants<B: Fld>(run: &Run) {
    run.seq(&format!("{}-const", B::NAME), 1, |_, _, st| {
        let f = B::FP;
        let p = f.p;
        let bad = |what: &str, st: &mut State| st.violation(format!("{}:constant:{}", B::NAME, what), J::s(what));
        if B::pi_u128(B::MODULUS) != p {
            bad("modulus", st);
        }
        let mut mb = B::get_modulus_le_bytes();
        mb.resize(16, 0);
        if u128::from_le_bytes(mb.try_into().unwrap()) != p {
            bad("modulus-bytes", st);
        }
        if 128 - (p - 1).leading_zeros() != B::MODULUS_BITS {
            bad("modulus-bits", st);
        }
        let s = B::TWO_ADICITY;
        if (p - 1) % (1u128 << s) != 0 || ((p - 1) >> s) % 2 != 1 {
            bad("two-adicity", st);
        }
        let mut prod = 1u128 << s;
        for q in B::ODD_FACTORS {
            assert!(is_prime_small(*q), "harness factor table");
            prod *= q;
        }
        assert_eq!(prod, p - 1, "harness factor table");
        // generator: g^((p-1)/q) != 1 for every prime q | p-1
        let g = B::GENERATOR.res();
        check::<B>(st, "GENERATOR", &[], B::GENERATOR, g);
        for q in B::ODD_FACTORS.iter().copied().chain([2u128]) {
            if f.pow(g, (p - 1) / q) == 1 {
                bad("generator-order", st);
            }
        }
        // root of unity of exact order 2^s
        let w = B::TWO_ADIC_ROOT_OF_UNITY.res();
        check::<B>(st, "TWO_ADIC_ROOT_OF_UNITY", &[], B::TWO_ADIC_ROOT_OF_UNITY, w);
        if f.pow(w, 1u128 << s) != 1 || f.pow(w, 1u128 << (s - 1)) != p - 1 {
            bad("root-order", st);
        }
        for n in 1..=s {
            let r = B::get_root_of_unity(n);
            let want = f.pow(w, 1u128 << (s - n));
            check::<B>(st, "get_root_of_unity", &[n as u128], r, want);
            if f.pow(r.res(), 1u128 << n) != 1 || f.pow(r.res(), 1u128 << (n - 1)) != p - 1 {
                bad("root-of-unity-order", st);
            }
            st.case(wfv::fnv(format!("{}root{}", B::NAME, n).as_bytes()), true);
        }
        check::<B>(st, "ZERO", &[], B::ZERO, 0);
        check::<B>(st, "ONE", &[], B::ONE, 1);
        if B::ELEMENT_BYTES != ((B::MODULUS_BITS as usize + 7) / 8).next_power_of_two() || B::EXTENSION_DEGREE != 1 || <B as Randomizable>::VALUE_SIZE != B::ELEMENT_BYTES {
            bad("sizes", st);
        }
        st.count(&format!("{}.constants_checked", B::NAME));
    });
}

fn all<B: Fld>(run: &Run) {
    if std::env::var("VERIF_STAGE").as_deref() == Ok("miri") {
        // the interpreter is ~4 orders of magnitude slower: constants, conversions (they contain
        // the slice reinterpretation casts) and a few hundred programs only
        constants::<B>(run);
        programs::<B>(run, 150);
        conversions::<B>(run, 60);
        return;
    }
    constants::<B>(run);
    boundary_pairs::<B>(run);
    let slow = if B::MODULUS_BITS > 64 { 8 } else { 1 };
    programs::<B>(run, run.size(2_400_000, 48_000_000) / slow);
    conversions::<B>(run, run.size(400_000, 10_000_000) / slow);
}

fn main() {
    let run = Run::start("C07");
    use winter_math::fields::{f128, f62, f64};
    all::<f64::BaseElement>(&run);
    all::<f62::BaseElement>(&run);
    all::<f128::BaseElement>(&run);
    typed_conversions(&run, if std::env::var("VERIF_STAGE").as_deref() == Ok("miri") { 40 } else { run.size(200_000, 10_000_000) });
    let fields = ["f64", "f62", "f128"];
    let mut require = vec![];
    for f in fields {
        require.push((format!("{f}.boundary_pairs"), 10_000));
        require.push((format!("{f}.op.mul"), 1000));
        require.push((format!("{f}.op.inv"), 1000));
        require.push((format!("{f}.constants_checked"), 1));
        require.push((format!("{f}.conversion_values"), 1000));
    }
    require.push(("typed.conversion_values".to_string(), 30));
    run.finish(Finish {
        rule: "boundary integers taken as residues and as internal (Montgomery) images: all ordered pairs x {add,sub,mul,div and assigning forms}, all unary ops, boundary exponents; random programs of 1..12 public operations over a 6-register file with the u128 reference in lock-step (value, ==, bytes, representation range asserted on every intermediate); conversions on boundary+random integers (generic byte/integer constructors, and per field every From/TryFrom between elements and bool/u8/u16/u32/u64/u128/usize/[u8; 8] in both directions, Display/Debug, on elements with arbitrary internal images); published constants. A case is non-trivial when it is a pair/program of >= 2 steps/conversion value; distinct = distinct (operands) or (program hash)".into(),
        assumptions: vec![
            "reference: u128 arithmetic with native % (62/64-bit primes) and double-and-add (128-bit prime); Fermat inversion".into(),
            "elements with arbitrary internal image are built with from_mont (f64, < M) and bytes_as_elements (f62, < 2M), i.e. inside the documented representation range".into(),
            "build profile: release, overflow-checks on, debug-assertions off; inversion loops bounded by hook H1 (4096 steps)".into(),
        ],
        exhaustive: false,
        require,
        extra: vec![],
    });
}
