//! C10 Merkle openings: positive monitor (every opening produced by the tree verifies, decompresses
//! to the naive paths and re-compresses to itself) and negative monitor (every mutated opening or
//! position list is refused with an error, never accepted, never a panic), against a naive tree
//! recomputed with the Hasher API.
use winter_crypto::{
    hashers::{Blake3_192, Blake3_256, Rp62_248, Rp64_256, RpJive64_256, Sha3_256},
    BatchMerkleProof, Digest, Hasher, MerkleTree,
};
use winter_math::fields::{f128, f62, f64};
use winter_utils::SliceReader;
use wfv::{catch, hex, Finish, Rng, Run, State, J};

struct Naive<H: Hasher> {
    /// nodes[1] = root, nodes[n + i] = leaf i
    nodes: Vec<H::Digest>,
    n: usize,
}

impl<H: Hasher> Naive<H> {
    fn new(leaves: &[H::Digest]) -> Self {
        let n = leaves.len();
        let mut nodes = vec![H::Digest::default(); 2 * n];
        nodes[n..].copy_from_slice(leaves);
        for i in (1..n).rev() {
            nodes[i] = H::merge(&[nodes[2 * i], nodes[2 * i + 1]]);
        }
        Naive { nodes, n }
    }
    fn root(&self) -> H::Digest {
        self.nodes[1]
    }
    /// [leaf, sibling, uncle, ...]
    fn path(&self, i: usize) -> Vec<H::Digest> {
        let mut k = self.n + i;
        let mut p = vec![self.nodes[k]];
        while k > 1 {
            p.push(self.nodes[k ^ 1]);
            k >>= 1;
        }
        p
    }
}

fn leaves<H: Hasher>(rng: &mut Rng, n: usize) -> Vec<H::Digest> {
    (0..n).map(|i| H::hash(&[rng.u64().to_le_bytes(), (i as u64).to_le_bytes()].concat())).collect()
}
fn fresh<H: Hasher>(rng: &mut Rng) -> H::Digest {
    H::hash(&rng.bytes(16))
}

fn rebuild<H: Hasher>(p: &BatchMerkleProof<H>) -> BatchMerkleProof<H> {
    BatchMerkleProof { leaves: p.leaves.clone(), nodes: p.nodes.clone(), depth: p.depth }
}
fn same<H: Hasher>(a: &BatchMerkleProof<H>, b: &BatchMerkleProof<H>) -> bool {
    a.leaves == b.leaves && a.nodes == b.nodes && a.depth == b.depth
}
fn describe<H: Hasher>(p: &BatchMerkleProof<H>) -> J {
    J::obj(vec![
        ("depth", J::i(p.depth)),
        ("leaves", J::i(p.leaves.len())),
        ("node_vector_lengths", J::A(p.nodes.iter().map(|v| J::i(v.len())).collect())),
    ])
}

struct Ctx<'a, H: Hasher> {
    hname: &'a str,
    tree: &'a MerkleTree<H>,
    naive: &'a Naive<H>,
    all: &'a [H::Digest],
}

fn vio<H: Hasher>(st: &mut State, c: &Ctx<H>, what: &str, idx: &[usize], extra: J) {
    st.violation(
        format!("{}:{}", c.hname, what),
        J::obj(vec![("hasher", J::s(c.hname)), ("check", J::s(what)), ("tree_leaves", J::i(c.all.len())), ("positions", J::A(idx.iter().map(|x| J::i(*x)).collect())), ("detail", extra)]),
    );
}
/// signature without the hasher name for defects that do not depend on it
fn vio_generic<H: Hasher>(st: &mut State, c: &Ctx<H>, what: &str, idx: &[usize], extra: J) {
    st.violation(
        what.to_string(),
        J::obj(vec![("hasher", J::s(c.hname)), ("check", J::s(what)), ("tree_leaves", J::i(c.all.len())), ("positions", J::A(idx.iter().take(20).map(|x| J::i(*x)).collect())), ("detail", extra)]),
    );
}

/// positive part for one ordered position list
fn positive<H: Hasher>(st: &mut State, c: &Ctx<H>, idx: &[usize]) -> Option<BatchMerkleProof<H>> {
    let root = c.naive.root();
    let proof = match c.tree.prove_batch(idx) {
        Ok(p) => p,
        Err(e) => {
            vio(st, c, "prove_batch:error", idx, J::s(format!("{e:?}")));
            return None;
        },
    };
    st.evals += 1;
    if proof.leaves.len() != idx.len() || idx.iter().zip(&proof.leaves).any(|(i, l)| *l != c.all[*i]) || proof.depth as usize != c.all.len().ilog2() as usize {
        vio(st, c, "prove_batch:claimed-leaves", idx, describe(&proof));
    }
    match catch(|| MerkleTree::<H>::verify_batch(&root, idx, &proof)) {
        Ok(Ok(())) => {},
        Ok(Err(e)) => vio(st, c, "honest-opening-rejected", idx, J::s(format!("{e:?}"))),
        Err(p) => vio(st, c, "honest-opening-panic", idx, J::s(p.msg)),
    }
    match catch(|| proof.get_root(idx)) {
        Ok(Ok(r)) if r == root => {},
        _ => vio(st, c, "get_root", idx, describe(&proof)),
    }
    // decompression into the individual paths
    match catch(|| rebuild(&proof).into_paths(idx)) {
        Ok(Ok(paths)) => {
            let ok = paths.len() == idx.len() && idx.iter().zip(&paths).all(|(i, p)| *p == c.naive.path(*i) && MerkleTree::<H>::verify(root, *i, p).is_ok());
            if !ok {
                vio(st, c, "into_paths:paths", idx, describe(&proof));
            } else {
                // re-compression gives the same opening back
                match catch(|| BatchMerkleProof::<H>::from_paths(&paths, idx)) {
                    Ok(re) => {
                        let sorted = idx.windows(2).all(|w| w[0] < w[1]);
                        if !same(&re, &proof) {
                            let what = if sorted { "from_paths(into_paths)!=opening" } else { "from_paths(into_paths)!=opening:unsorted-positions" };
                            vio_generic(st, c, what, idx, J::obj(vec![("original", describe(&proof)), ("recompressed", describe(&re)), ("recompressed_verifies_with_same_positions", J::B(MerkleTree::<H>::verify_batch(&root, idx, &re).is_ok()))]));
                        }
                    },
                    Err(p) => vio(st, c, "from_paths:panic", idx, J::s(p.msg)),
                }
            }
        },
        Ok(Err(e)) => vio(st, c, "into_paths:error", idx, J::s(format!("{e:?}"))),
        Err(p) => vio(st, c, "into_paths:panic", idx, J::s(p.msg)),
    }
    // wire format of the node vectors
    let bytes = proof.serialize_nodes();
    let mut rd = SliceReader::new(&bytes);
    match BatchMerkleProof::<H>::deserialize(&mut rd, proof.leaves.clone(), proof.depth) {
        Ok(back) if same(&back, &proof) => {},
        _ => vio(st, c, "serialize_nodes/deserialize", idx, describe(&proof)),
    }
    st.count(&format!("{}.honest_openings", c.hname));
    Some(proof)
}

/// a mutant must be refused: Err, not Ok, not a panic
fn must_reject<H: Hasher>(st: &mut State, c: &Ctx<H>, class: &str, idx: &[usize], m: &BatchMerkleProof<H>) {
    let root = c.naive.root();
    st.evals += 1;
    st.count(&format!("mutants.{class}"));
    match catch(|| MerkleTree::<H>::verify_batch(&root, idx, m)) {
        Ok(Err(_)) => {},
        Ok(Ok(())) => vio_generic(st, c, &format!("mutant-accepted:{class}"), idx, describe(m)),
        Err(p) => vio_generic(st, c, &format!("mutant-panic:{class}:{}", p.sig), idx, J::obj(vec![("proof", describe(m)), ("panic", J::s(p.msg))])),
    }
    // the decompressor must not panic either (it may only return Ok for openings that verify)
    match catch(|| rebuild(m).into_paths(idx)) {
        Ok(Ok(paths)) => {
            let all_ok = paths.len() == idx.len() && idx.iter().zip(&paths).all(|(i, p)| p.len() >= 2 && catch(|| MerkleTree::<H>::verify(root, *i, p)).map(|r| r.is_ok()).unwrap_or(false));
            if all_ok && paths.iter().zip(idx).any(|(p, i)| *i < c.all.len() && p[0] != c.all[*i]) {
                vio_generic(st, c, &format!("mutant-decompresses-to-valid-paths:{class}"), idx, describe(m));
            }
        },
        Ok(Err(_)) => {},
        Err(p) => vio_generic(st, c, &format!("into_paths-panic:{class}:{}", p.sig), idx, J::obj(vec![("proof", describe(m)), ("panic", J::s(p.msg))])),
    }
}

fn negative<H: Hasher>(st: &mut State, c: &Ctx<H>, rng: &mut Rng, idx: &[usize], proof: &BatchMerkleProof<H>) {
    let n = c.all.len();
    // every single leaf / node replaced
    for k in 0..proof.leaves.len() {
        let mut m = rebuild(proof);
        m.leaves[k] = fresh::<H>(rng);
        must_reject(st, c, "leaf-replaced", idx, &m);
        // claim another committed leaf at this position
        let other = c.all[(idx[k] + 1 + rng.usize(n - 1)) % n];
        if other != proof.leaves[k] {
            let mut m = rebuild(proof);
            m.leaves[k] = other;
            must_reject(st, c, "leaf-swapped-for-other-committed-leaf", idx, &m);
        }
    }
    for (a, v) in proof.nodes.iter().enumerate() {
        for b in 0..v.len() {
            let mut m = rebuild(proof);
            m.nodes[a][b] = fresh::<H>(rng);
            must_reject(st, c, "node-replaced", idx, &m);
        }
    }
    // shape: node vectors truncated / extended / removed / added / moved
    for a in 0..proof.nodes.len() {
        if !proof.nodes[a].is_empty() {
            let mut m = rebuild(proof);
            m.nodes[a].pop();
            must_reject(st, c, "node-vector-truncated", idx, &m);
            if proof.nodes.len() > 1 {
                let mut m = rebuild(proof);
                let x = m.nodes[a].pop().unwrap();
                let b = (a + 1) % proof.nodes.len();
                m.nodes[b].push(x);
                must_reject(st, c, "node-moved-between-vectors", idx, &m);
            }
        }
        let mut m = rebuild(proof);
        m.nodes[a].push(fresh::<H>(rng));
        must_reject(st, c, "node-vector-extended", idx, &m);
        let mut m = rebuild(proof);
        m.nodes.remove(a);
        must_reject(st, c, "node-vector-removed", idx, &m);
    }
    let mut m = rebuild(proof);
    m.nodes.push(vec![]);
    must_reject(st, c, "empty-node-vector-appended", idx, &m);
    let mut m = rebuild(proof);
    m.nodes.push(vec![fresh::<H>(rng)]);
    must_reject(st, c, "node-vector-appended", idx, &m);
    // shape: leaves truncated / extended
    let mut m = rebuild(proof);
    m.leaves.pop();
    must_reject(st, c, "leaves-truncated", idx, &m);
    let mut m = rebuild(proof);
    m.leaves.push(fresh::<H>(rng));
    must_reject(st, c, "leaves-extended", idx, &m);
    let mut m = rebuild(proof);
    m.leaves.push(c.all[idx[0]]);
    must_reject(st, c, "leaves-extended-with-committed-leaf", idx, &m);
    // shape: depth
    let d = proof.depth;
    for nd in [0u8, d.wrapping_sub(1), d + 1, d + 2, 62, 63, 64, 65, 128, 255] {
        if nd != d {
            let mut m = rebuild(proof);
            m.depth = nd;
            must_reject(st, c, if nd >= 64 { "depth>=64" } else { "depth-changed" }, idx, &m);
        }
    }
    // positions: duplicated, out of range, moved, permuted against the unpermuted opening
    let mut dup = idx.to_vec();
    dup.push(idx[0]);
    must_reject(st, c, "position-duplicated", &dup, proof);
    if idx.len() > 1 {
        let mut d2 = idx.to_vec();
        d2[1] = d2[0];
        must_reject(st, c, "position-duplicated-in-place", &d2, proof);
        let mut perm = idx.to_vec();
        perm.rotate_left(1);
        must_reject(st, c, "positions-permuted", &perm, proof);
        let mut short = idx.to_vec();
        short.pop();
        must_reject(st, c, "positions-truncated", &short, proof);
    }
    for oor in [n, n + 1, 2 * n, usize::MAX, usize::MAX - 1] {
        let mut o = idx.to_vec();
        o[0] = oor;
        must_reject(st, c, "position-out-of-range", &o, proof);
    }
    if idx.len() < n {
        // another in-range position
        let mut o = idx.to_vec();
        let mut cand = rng.usize(n);
        while idx.contains(&cand) {
            cand = (cand + 1) % n;
        }
        let k = rng.usize(idx.len());
        o[k] = cand;
        must_reject(st, c, "position-changed", &o, proof);
        let mut more = idx.to_vec();
        more.push(cand);
        must_reject(st, c, "position-added", &more, proof);
        // a position claimed together with a leaf for it (made up, or even the committed one), the node vectors
        // left as they are: to the right of every opened position, to the left, next to an opened one, anywhere
        let mut cands: Vec<usize> = vec![cand];
        for x in [n - 1, n - 2, 0, 1, idx[0] ^ 1, idx[idx.len() - 1] ^ 1, (idx[0] ^ 2) % n, n / 2] {
            if x < n && !idx.contains(&x) && !cands.contains(&x) {
                cands.push(x);
            }
        }
        for x in cands {
            for committed in [false, true] {
                let mut m = rebuild(proof);
                m.leaves.push(if committed { c.all[x] } else { c.all[(x + 1) % n] });
                let mut pos = idx.to_vec();
                pos.push(x);
                must_reject(st, c, if committed { "position+committed-leaf-added" } else { "position+made-up-leaf-added" }, &pos, &m);
                // and in front of the list
                let mut m2 = rebuild(proof);
                m2.leaves.insert(0, if committed { c.all[x] } else { c.all[(x + 1) % n] });
                let mut pos2 = vec![x];
                pos2.extend_from_slice(idx);
                must_reject(st, c, if committed { "position+committed-leaf-added" } else { "position+made-up-leaf-added" }, &pos2, &m2);
            }
        }
    }
    if idx.len() > 1 {
        // a position dropped together with its leaf
        for k in [0, idx.len() - 1] {
            let mut m = rebuild(proof);
            m.leaves.remove(k);
            let mut pos = idx.to_vec();
            pos.remove(k);
            must_reject(st, c, "position+leaf-removed", &pos, &m);
        }
    }
    st.count(&format!("{}.mutated_openings", c.hname));
}

fn single_paths<H: Hasher>(st: &mut State, c: &Ctx<H>, rng: &mut Rng) {
    let n = c.all.len();
    let root = c.naive.root();
    let depth = n.ilog2() as usize;
    for i in 0..n.min(64) {
        let i = if n <= 64 { i } else { rng.usize(n) };
        match c.tree.prove(i) {
            Ok(p) => {
                if p != c.naive.path(i) || MerkleTree::<H>::verify(root, i, &p).is_err() {
                    vio(st, c, "prove/verify:single", &[i], J::Null);
                }
                // replaced elements, wrong index
                for k in 0..p.len() {
                    let mut m = p.clone();
                    m[k] = fresh::<H>(rng);
                    if !matches!(catch(|| MerkleTree::<H>::verify(root, i, &m)), Ok(Err(_))) {
                        vio_generic(st, c, "single-path:element-replaced-accepted-or-panic", &[i], J::i(k));
                    }
                }
                // positions beyond the tree must be refused, not reduced modulo the tree size
                for oor in [i + n, i + 2 * n, i + (n << 8), usize::MAX, usize::MAX - (n - 1 - i)] {
                    match catch(|| MerkleTree::<H>::verify(root, oor, &p)) {
                        Ok(Err(_)) => {},
                        Ok(Ok(())) => vio_generic(st, c, "single-path:out-of-range-position-accepted", &[oor], J::Null),
                        Err(pi) => vio_generic(st, c, &format!("single-path:out-of-range-position-panic:{}", pi.sig), &[oor], J::s(pi.msg)),
                    }
                    st.evals += 1;
                }
                let j = (i + 1 + rng.usize(n - 1)) % n;
                if c.all[j] != c.all[i] && !matches!(catch(|| MerkleTree::<H>::verify(root, j, &p)), Ok(Err(_))) {
                    vio_generic(st, c, "single-path:other-index-accepted-or-panic", &[i, j], J::Null);
                }
                // paths of every length 0..depth+2 (truncated / extended)
                for l in (0..=depth + 3).chain([64usize, 65, 66, 70]) {
                    if l == p.len() {
                        continue;
                    }
                    let mut m = p.clone();
                    m.truncate(l);
                    while m.len() < l {
                        m.push(fresh::<H>(rng));
                    }
                    match catch(|| MerkleTree::<H>::verify(root, i, &m)) {
                        Ok(Err(_)) => {},
                        Ok(Ok(())) => vio_generic(st, c, "single-path:wrong-length-accepted", &[i], J::i(l)),
                        Err(pi) => vio_generic(st, c, &format!("single-path:wrong-length-panic:{}", pi.sig), &[i], J::obj(vec![("path_len", J::i(l)), ("panic", J::s(pi.msg))])),
                    }
                    st.evals += 1;
                }
                st.count(&format!("{}.single_paths", c.hname));
            },
            Err(e) => vio(st, c, "prove:error", &[i], J::s(format!("{e:?}"))),
        }
    }
    if c.tree.prove(n).is_ok() || c.tree.prove(usize::MAX).is_ok() {
        vio(st, c, "prove:out-of-range-accepted", &[n], J::Null);
    }
    // request-level refusals
    if c.tree.prove_batch(&[]).is_ok() || c.tree.prove_batch(&[0, 0]).is_ok() || c.tree.prove_batch(&[n]).is_ok() {
        vio(st, c, "prove_batch:ill-formed-request-accepted", &[], J::Null);
    }
    if n >= 256 {
        let many: Vec<usize> = (0..256).collect();
        if c.tree.prove_batch(&many).is_ok() {
            vio(st, c, "prove_batch:256-positions-accepted", &[], J::Null);
        }
        let max: Vec<usize> = (0..255).map(|k| (k * 7919) % n).collect::<std::collections::BTreeSet<_>>().into_iter().collect();
        if let Some(p) = positive(st, c, &max) {
            let _ = p;
            st.count("batch.255_positions");
        }
    }
}

fn tree_checks<H: Hasher>(st: &mut State, hname: &str, all: &[H::Digest]) -> Option<(MerkleTree<H>, Naive<H>)> {
    let naive = Naive::<H>::new(all);
    match catch(|| MerkleTree::<H>::new(all.to_vec())) {
        Ok(Ok(t)) => {
            if *t.root() != naive.root() || t.depth() != all.len().ilog2() as usize || t.leaves() != all {
                st.violation(format!("{hname}:tree-root"), J::i(all.len()));
            }
            Some((t, naive))
        },
        _ => {
            st.violation(format!("{hname}:tree-construction"), J::i(all.len()));
            None
        },
    }
}

fn drive<H: Hasher>(run: &Run, hname: &str, exhaustive_depth: u32, sampled: u64)
where
    H::Digest: Send + Sync,
{
    // (1) exhaustive: every non-empty subset of positions for depth 1..exhaustive_depth, in sorted order;
    //     all orders of every subset for depth <= 3; mutations on every 'stride'-th subset
    for depth in 1..=exhaustive_depth {
        let n = 1usize << depth;
        let mut seed_rng = run.rng(&format!("{hname}-leaves"), depth as u64);
        let all = leaves::<H>(&mut seed_rng, n);
        let mut st0 = State::new();
        let Some((tree, naive)) = tree_checks::<H>(&mut st0, hname, &all) else {
            run.merge(st0);
            continue;
        };
        run.merge(st0);
        let subsets = (1u64 << n) - 1;
        let chunk = if depth <= 3 { 2u64 } else { 128u64 };
        let mut_stride = if run.quick() { 16 } else { 1 };
        run.par(&format!("{hname}-exh-{depth}"), subsets.div_ceil(chunk), |ci, rng, st| {
            let c = Ctx { hname, tree: &tree, naive: &naive, all: &all };
            for mask in (ci * chunk + 1)..=((ci + 1) * chunk).min(subsets) {
                let idx: Vec<usize> = (0..n).filter(|b| (mask >> b) & 1 == 1).collect();
                if let Some(p) = positive(st, &c, &idx) {
                    if mask % mut_stride == 0 || mask == subsets || mask < 4 {
                        negative(st, &c, rng, &idx, &p);
                    }
                }
                st.distinct.insert(wfv::fnv(format!("{hname}{depth}:{mask}").as_bytes()));
                if depth <= 3 && idx.len() >= 2 && idx.len() <= 6 {
                    // all orders (Heap's algorithm)
                    let mut a = idx.clone();
                    let k = a.len();
                    let mut cst = vec![0usize; k];
                    let mut i = 0;
                    while i < k {
                        if cst[i] < i {
                            if i % 2 == 0 {
                                a.swap(0, i);
                            } else {
                                a.swap(cst[i], i);
                            }
                            if let Some(p) = positive(st, &c, &a) {
                                if (mask + cst[i] as u64) % (4 * mut_stride) == 0 {
                                    negative(st, &c, rng, &a, &p);
                                }
                            }
                            st.count("orders.permuted_position_lists");
                            cst[i] += 1;
                            i = 0;
                        } else {
                            cst[i] = 0;
                            i += 1;
                        }
                    }
                }
            }
            if ci == 0 {
                single_paths(st, &c, rng);
                st.sample(hname, || J::obj(vec![("hasher", J::s(hname)), ("tree_leaves", J::i(n)), ("subsets_enumerated", J::i(subsets)), ("root", J::s(hex(&naive.root().as_bytes())))]));
            }
        });
        let mut s = State::new();
        s.add(&format!("{hname}.exhaustive_depth_{depth}_subsets"), subsets);
        run.merge(s);
    }
    // (2) sampled larger trees
    run.par(&format!("{hname}-sampled"), sampled, |i, rng, st| {
        let depth = 5 + (i % 8) as u32; // 5..12
        let n = 1usize << depth;
        let all = leaves::<H>(rng, n);
        let Some((tree, naive)) = tree_checks::<H>(st, hname, &all) else { return };
        let c = Ctx { hname, tree: &tree, naive: &naive, all: &all };
        for rep in 0..4 {
            let k = match (i + rep) % 6 {
                0 => 1,
                1 => 2,
                2 => rng.range(3, 20),
                3 => rng.range(20, 255.min(n)),
                4 => 255.min(n),
                _ => rng.range(1, 8),
            };
            let mut idx: Vec<usize> = match rng.below(5) {
                0 => {
                    // adjacent pairs and cousins
                    let s = rng.usize(n - 4) & !3;
                    vec![s, s + 1, s + 2, s + 3]
                },
                1 => (0..k.min(n / 2)).collect(),              // all-left
                2 => (n - k.min(n / 2)..n).collect(),          // all-right
                _ => {
                    let mut set = std::collections::BTreeSet::new();
                    while set.len() < k.min(n) {
                        set.insert(rng.usize(n));
                    }
                    set.into_iter().collect()
                },
            };
            if rng.bool() {
                rng.shuffle(&mut idx);
            }
            if let Some(p) = positive(st, &c, &idx) {
                if idx.len() <= 24 {
                    negative(st, &c, rng, &idx, &p);
                }
            }
            st.distinct.insert(wfv::fnv(format!("{hname}s{i}:{rep}").as_bytes()));
        }
        if i % 8 == 3 || i % 8 == 7 {
            single_paths(st, &c, rng);
        }
        if n > 1024 {
            st.count(&format!("{hname}.trees_gt_1024_leaves"));
        }
        st.count(&format!("{hname}.sampled_trees"));
    });
}

fn main() {
    let run = Run::start("C10");
    type B64 = f64::BaseElement;
    type B62 = f62::BaseElement;
    type B128 = f128::BaseElement;
    if std::env::var("VERIF_STAGE").as_deref() == Ok("miri") {
        // depth <= 3 exhaustively for one hasher (the tree builders cast leaf slices with from_raw_parts)
        // (depth 3 exhaustively means 109 600 ordered position lists: hours under Miri)
        drive::<Blake3_256<B64>>(&run, "Blake3_256", 2, 1);
        drive::<Rp64_256>(&run, "Rp64_256", 1, 1);
        run.finish(Finish {
            rule: "Miri: every position subset and order for trees of depth <= 2 (Blake3_256) and <= 1 (Rp64_256), one sampled 32-leaf tree each".into(),
            assumptions: vec!["Miri without the aliasing model".into()],
            exhaustive: true,
            require: vec![],
            extra: vec![],
        });
    }
    let ex = 4;
    let s = run.size(64, 6_000);
    drive::<Blake3_256<B64>>(&run, "Blake3_256", ex, s);
    drive::<Blake3_192<B128>>(&run, "Blake3_192", if run.quick() { 3 } else { 4 }, s);
    drive::<Sha3_256<B62>>(&run, "Sha3_256", if run.quick() { 3 } else { 4 }, s);
    drive::<Rp64_256>(&run, "Rp64_256", if run.quick() { 3 } else { 4 }, s / 2);
    drive::<RpJive64_256>(&run, "RpJive64_256", if run.quick() { 3 } else { 4 }, s / 2);
    drive::<Rp62_248>(&run, "Rp62_248", if run.quick() { 3 } else { 4 }, s / 2);
    let mut require = vec![("Blake3_256.exhaustive_depth_4_subsets".to_string(), 65535), ("orders.permuted_position_lists".to_string(), 10_000), ("batch.255_positions".to_string(), 1)];
    for h in ["Blake3_256", "Blake3_192", "Sha3_256", "Rp64_256", "RpJive64_256", "Rp62_248"] {
        require.push((format!("{h}.honest_openings"), 1000));
        require.push((format!("{h}.mutated_openings"), 50));
        require.push((format!("{h}.single_paths"), 10));
        require.push((format!("{h}.sampled_trees"), 8));
        require.push((format!("{h}.trees_gt_1024_leaves"), 1));
    }
    for m in ["leaf-replaced", "node-replaced", "node-vector-truncated", "node-vector-extended", "leaves-extended", "depth-changed", "depth>=64", "positions-permuted", "position-out-of-range", "position-duplicated"] {
        require.push((format!("mutants.{m}"), 100));
    }
    run.finish(Finish {
        rule: "trees of depth 1..4: every non-empty subset of positions (sorted order; Blake3_256 always depth 4 = 65535 subsets, other hashers depth 3 in quick / 4 in thorough); depth <= 3: every order of every subset of 2..6 positions; depths 5..12 sampled (adjacent pairs/cousins, all-left, all-right, 1..255 random positions, shuffled orders). Per opening: verifies, get_root = naive root, claimed leaves, into_paths = naive paths and each verifies, from_paths(into_paths) = opening, node wire format round trip. Mutants (every 16th subset in quick, all in thorough): each leaf/node replaced, leaf swapped for another committed leaf, node vectors truncated/extended/removed/appended/moved, leaves truncated/extended, depth in {0,d-1,d+1,d+2,62..65,128,255}, positions duplicated/permuted/truncated/out of range/changed/added, positions added or removed together with a leaf (made-up or committed; right of / left of / next to the opened positions): each must return Err (not Ok, not panic), in verify_batch and into_paths; single paths of every length 0..depth+3. distinct = distinct (hasher, tree, position list)".into(),
        assumptions: vec!["naive tree recomputed with the Hasher API (hash functions themselves monitored by C11)".into(), "accidental acceptance of a mutant requires a hash collision".into()],
        exhaustive: true,
        require,
        extra: vec![("concurrent_feature".into(), J::B(cfg!(feature = "concurrent")))],
    });
}
