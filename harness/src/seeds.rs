//! Seed proofs and the complete mutant list used by the untrusted-input monitor (C06).
use std::sync::Arc;

use winter_air::{proof::Proof, FieldExtension, ProofOptions};
use winter_utils::Serializable;
use winter_verifier::AcceptableOptions;

use crate::{
    genair::*,
    mutate::{self, Mutant, ProofMap},
    prng::Rng,
    stark::{self, Hs, Instance, Proved, COMBOS},
};

pub fn digest_size(hs: Hs) -> usize {
    match hs {
        Hs::Blake3_192 => 24,
        Hs::Rp62_248 => 31,
        _ => 32,
    }
}

pub struct Seed {
    pub inst: Instance,
    pub proof: Proof,
    pub bytes: Vec<u8>,
    pub map: ProofMap,
}

/// a small accepted proof; `i` selects field/hasher/extension and the shape class
pub fn make_seed(i: u64, rng: &mut Rng) -> Option<Seed> {
    let (fd, hs) = COMBOS[(i % COMBOS.len() as u64) as usize];
    // the extension degree rotates with the index so that even 24 seeds (quick tier) see all three degrees
    let ext = match (i / 12 + i) % 3 {
        0 => FieldExtension::None,
        1 => FieldExtension::Quadratic,
        _ if stark::cubic_supported(fd) => FieldExtension::Cubic,
        _ => FieldExtension::None,
    };
    let lim = Limits { max_log_n: 5, max_width: 3, max_blowup: 4, allow_aux: i % 4 == 0 };
    let mut shape = Shape::random(rng, &lim);
    if i % 8 == 0 && shape.aux.is_none() {
        shape.aux = Some(AuxShape { cols: 1, rands: 1, lagrange: i % 16 == 0 });
    }
    shape.meta = if i % 7 == 0 { rng.bytes(3) } else { vec![] };
    // every twelfth seed: every column constant, no auxiliary segment - every constraint evaluates to zero whatever
    // the challenges are, so edits that re-seed the coin survive the out-of-domain check and reach the later stages
    if i % 12 == 10 {
        let w = shape.width();
        shape.rules = (0..w).map(|c| Rule::Pow { d: 1, a: 1, b: 0, src: c, per: None }).collect();
        shape.periodic.clear();
        shape.aux = None;
        shape.asserts = vec![ASpec { col: 0, kind: AKind::Single(0) }];
        shape.exemptions = 1;
    }
    let shape = Arc::new(shape);
    let mut options = random_options(rng, &shape, ext, 8);
    // every sixth seed asks for a single query without grinding: an edit that re-seeds the coin can
    // then be re-aligned with the opened position by scanning the nonce (see `recommitted` below)
    let single = i % 6 == 5;
    let q = if single { 1 } else { rng.range(3, 7).min(shape.n() * options.blowup_factor() - 1) };
    // every sixth seed asks for two queries and a remainder of 8 or 16 coefficients where the schedule allows it:
    // more remainder coefficients than final query positions leave room for position-aware substitutions
    let few = i % 6 == 4;
    let q = if few { 2 } else { q };
    let mut rem_deg = options.to_fri_options().remainder_max_degree();
    if few || (single && i % 12 == 11) {
        let lde = shape.n() * options.blowup_factor();
        for cand in [15usize, 7] {
            if crate::frih::schedule_well_formed(lde, &winter_fri::FriOptions::new(options.blowup_factor(), options.to_fri_options().folding_factor(), cand)) {
                rem_deg = cand;
                break;
            }
        }
    }
    options = ProofOptions::new(q, options.blowup_factor(), if i % 5 == 0 && !single { 3 } else { 0 }, ext, options.to_fri_options().folding_factor(), rem_deg);
    let (cols, values) = stark::gen_trace(fd, &shape, rng, TraceKind::Random);
    let inst = Instance { fd, hs, shape, options, cols, values };
    let proof = match stark::prove(&inst, false) {
        Proved::Ok(p) => p,
        _ => return None,
    };
    if !matches!(stark::verify_proof(fd, hs, &inst.shape, &inst.values, proof.clone(), &AcceptableOptions::MinConjecturedSecurity(0), false), Ok(Ok(()))) {
        return None;
    }
    let bytes = proof.to_bytes();
    let map = mutate::map_proof(&bytes, digest_size(hs))?;
    Some(Seed { inst, proof, bytes, map })
}

/// the full, deterministic mutant list of a seed
pub fn all_mutants(seed: &Seed, rng: &mut Rng, quick: bool) -> Vec<Mutant> {
    let n = seed.bytes.len();
    let mut out = Vec::new();
    // single-bit flips
    for off in 0..n {
        let bits: Vec<u8> = if !quick || off < 160 { (0..8).collect() } else { vec![rng.usize(8) as u8] };
        for b in bits {
            let mut v = seed.bytes.clone();
            v[off] ^= 1 << b;
            out.push(Mutant { class: format!("bitflip:{}", mutate::field_at(&seed.map, off)), bytes: v });
        }
    }
    // byte substitutions
    for off in 0..n {
        let vals = mutate::byte_values(seed.bytes[off]);
        let vals: Vec<u8> = if !quick || off < 160 { vals } else { vec![vals[rng.usize(vals.len())]] };
        for x in vals {
            let mut v = seed.bytes.clone();
            v[off] = x;
            out.push(Mutant { class: format!("byte:{}", mutate::field_at(&seed.map, off)), bytes: v });
        }
    }
    let first = mutate::structured(&seed.bytes, &seed.map, rng, digest_size(seed.inst.hs));
    let pairs = mutate::second_generation(&first, rng, digest_size(seed.inst.hs), if quick { 400 } else { 6000 });
    out.extend(first);
    out.extend(pairs);
    for cut in 0..n {
        if quick && cut > 200 && cut % 4 != 0 {
            continue;
        }
        out.push(Mutant { class: "truncated".into(), bytes: seed.bytes[..cut].to_vec() });
    }
    // random strings with a valid prefix
    for _ in 0..if quick { 40 } else { 400 } {
        let keep = rng.usize(n);
        let mut v = seed.bytes[..keep].to_vec();
        let extra = rng.usize(64);
        v.extend(rng.bytes(extra));
        out.push(Mutant { class: "valid-prefix+random".into(), bytes: v });
    }
    out.extend(recommitted(seed, quick));
    out.extend(rescheduled(seed));
    out.extend(oversized_tables(seed));
    // structurally valid proofs with inconsistent components (edited through the public fields)
    let mut sem: Vec<(&str, Proof)> = Vec::new();
    for nq in [0u8, 1, 2, 254, 255] {
        let mut p = seed.proof.clone();
        p.num_unique_queries = nq;
        sem.push(("num_unique_queries", p));
    }
    // the query count claimed by the options set to the size of the LDE domain and its neighbours
    if let Some(f) = seed.map.fields.iter().find(|f| f.name == "context.options.num_queries") {
        let lde = seed.inst.shape.n() * seed.inst.options.blowup_factor();
        for v in [lde.saturating_sub(1), lde, lde + 1, lde / 2, 2 * lde] {
            if (1..=255).contains(&v) {
                let mut b = seed.bytes.clone();
                b[f.off] = v as u8;
                out.push(Mutant { class: "num_queries-vs-lde-domain-size".into(), bytes: b });
            }
        }
    }
    for nonce in [0u64, 1, u64::MAX] {
        let mut p = seed.proof.clone();
        p.pow_nonce = nonce;
        sem.push(("pow_nonce", p));
    }
    for g in [None, Some(vec![]), Some(vec![0xff; 3]), Some(vec![40, 0, 0, 0]), Some(vec![200, 0, 0, 0])] {
        let mut p = seed.proof.clone();
        p.gkr_proof = g;
        sem.push(("gkr_proof", p));
    }
    let mut p = seed.proof.clone();
    p.trace_queries.clear();
    sem.push(("no-trace-queries", p));
    let mut p = seed.proof.clone();
    let q0 = p.trace_queries[0].clone();
    p.trace_queries.push(q0);
    sem.push(("extra-trace-queries", p));
    let mut p = seed.proof.clone();
    std::mem::swap(&mut p.constraint_queries, &mut p.trace_queries[0]);
    sem.push(("queries-swapped", p));
    let mut p = seed.proof.clone();
    p.ood_frame = Default::default();
    sem.push(("empty-ood-frame", p));
    let mut p = seed.proof.clone();
    p.commitments = Default::default();
    sem.push(("empty-commitments", p));
    let mut p = seed.proof.clone();
    p.fri_proof = winter_fri::FriProof::new_dummy();
    sem.push(("dummy-fri-proof", p));
    let d = Proof::new_dummy();
    sem.push(("dummy-proof", d.clone()));
    let mut p = seed.proof.clone();
    p.context = d.context;
    sem.push(("context-of-another-proof", p));
    for (what, p) in sem {
        out.push(Mutant { class: format!("semantic:{what}"), bytes: p.to_bytes() });
    }
    out
}

/// relabelled FRI schedule: the proof's options claim another folding factor / remainder degree, and the FRI part of
/// the proof (number of layers, layer records, layer commitments) is re-shaped to what the claimed options imply -
/// including schedules that no honest prover would use (a folded domain smaller than the folding factor). An
/// option byte edited alone never gets this far: the layer count no longer matches and the proof is refused early.
pub fn rescheduled(seed: &Seed) -> Vec<Mutant> {
    let mut out = Vec::new();
    let o = &seed.inst.options;
    let ds = digest_size(seed.inst.hs);
    let field = |name: &str| seed.map.fields.iter().find(|f| f.name == name);
    let (Some(cm), Some(ff), Some(fr), Some(nl), Some(modulus)) = (field("commitments"), field("context.options.fri_folding"), field("context.options.fri_remainder_max_degree"), field("fri.num_layers"), field("context.field_modulus")) else { return out };
    let elem = modulus.len * o.field_extension().degree() as usize;
    let lde = seed.inst.shape.n() * o.blowup_factor();
    let digests: Vec<&[u8]> = seed.bytes[cm.off..cm.off + cm.len].chunks(ds).collect();
    let nseg = seed.map.num_segments;
    let old_layers = seed.map.fri_layer_records.len();
    if cm.len % ds != 0 || digests.len() != nseg + 1 + old_layers + 1 {
        return out;
    }
    let layers_end = seed.map.fri_layer_records.last().map(|r| r.1).unwrap_or(nl.off + 1);
    for folding in [2usize, 4, 8, 16] {
        for rem in [0usize, 1, 3, 7, 15, 31, 63, 127, 255] {
            if folding == o.to_fri_options().folding_factor() && rem == o.to_fri_options().remainder_max_degree() {
                continue;
            }
            // the layer count the claimed options imply (the documented rule, integer division included)
            let mut d = lde;
            let mut nlayers = 0usize;
            while d > (rem + 1) * o.blowup_factor() {
                d /= folding;
                nlayers += 1;
            }
            if nlayers > 40 {
                continue;
            }
            for variant in 0..3usize {
                // layer records: 0 = the proof's own records reused in turn; 1 / 2 = minimal well-formed records with
                // one / two rows of zero elements sized for the claimed folding factor and an opening without nodes
                let mut recs: Vec<u8> = Vec::new();
                for j in 0..nlayers {
                    if variant == 0 && old_layers > 0 {
                        let (a, b) = seed.map.fri_layer_records[j % old_layers];
                        recs.extend_from_slice(&seed.bytes[a..b]);
                    } else {
                        let rows = if variant == 2 { 2 } else { 1 };
                        let vals = vec![0u8; rows * folding * elem];
                        recs.extend_from_slice(&(vals.len() as u32).to_le_bytes());
                        recs.extend_from_slice(&vals);
                        recs.extend_from_slice(&1u32.to_le_bytes());
                        recs.push(0);
                    }
                }
                let mut cbody: Vec<u8> = Vec::new();
                for dgt in &digests[..nseg + 1] {
                    cbody.extend_from_slice(dgt);
                }
                for j in 0..nlayers {
                    cbody.extend_from_slice(digests[nseg + 1 + if old_layers > 0 { j % old_layers } else { old_layers }]);
                }
                cbody.extend_from_slice(digests[digests.len() - 1]);
                if cbody.len() > u16::MAX as usize {
                    continue;
                }
                let mut v: Vec<u8> = seed.bytes[..cm.off - 2].to_vec();
                v[ff.off] = folding as u8;
                v[fr.off] = rem as u8;
                v.extend_from_slice(&(cbody.len() as u16).to_le_bytes());
                v.extend_from_slice(&cbody);
                v.extend_from_slice(&seed.bytes[cm.off + cm.len..nl.off]);
                v.push(nlayers as u8);
                v.extend_from_slice(&recs);
                v.extend_from_slice(&seed.bytes[layers_end..]);
                let ill = {
                    let mut d = lde;
                    let mut bad = false;
                    for _ in 0..nlayers {
                        if d < folding {
                            bad = true;
                        }
                        d /= folding;
                    }
                    bad
                };
                out.push(Mutant { class: format!("fri-schedule-relabelled:{}:{}", if ill { "layer-smaller-than-folding-factor" } else { "well-formed-schedule" }, ["own-records", "minimal-records-1-row", "minimal-records-2-rows"][variant]), bytes: v });
            }
        }
    }
    out
}

/// opened tables blown up to 255 / 256 / 257 / 1024 whole rows of valid elements (the proof's own rows repeated)
/// with a consistent length prefix: row counts beyond what the one-byte query count can express
pub fn oversized_tables(seed: &Seed) -> Vec<Mutant> {
    let mut out = Vec::new();
    let nq = seed.proof.num_unique_queries as usize;
    if nq == 0 {
        return out;
    }
    let mut blobs: Vec<(String, usize, usize, usize)> = Vec::new(); // (name, offset, length, rows)
    for f in &seed.map.fields {
        if f.kind == mutate::Kind::Blob && f.name.ends_with(".values") && f.len > 0 {
            if f.name.starts_with("fri.layer") {
                // a FRI layer opens one row per folded position: the row size is folding factor x element size
                let modulus = seed.map.fields.iter().find(|g| g.name == "context.field_modulus").map(|g| g.len).unwrap_or(0);
                let row = seed.inst.options.to_fri_options().folding_factor() * modulus * seed.inst.options.field_extension().degree() as usize;
                if row > 0 && f.len % row == 0 {
                    blobs.push((f.name.clone(), f.off, f.len, f.len / row));
                }
            } else if f.len % nq == 0 {
                blobs.push((f.name.clone(), f.off, f.len, nq));
            }
        }
    }
    for (name, off, len, rows) in blobs {
        let row = len / rows;
        for target in [255usize, 256, 257, 1024] {
            if target == rows || target * row > 1 << 20 {
                continue;
            }
            let mut body = Vec::with_capacity(target * row);
            for r in 0..target {
                let k = r % rows;
                body.extend_from_slice(&seed.bytes[off + k * row..off + (k + 1) * row]);
            }
            let mut v = seed.bytes[..off - 4].to_vec();
            v.extend_from_slice(&(body.len() as u32).to_le_bytes());
            v.extend_from_slice(&body);
            v.extend_from_slice(&seed.bytes[off + len..]);
            out.push(Mutant { class: format!("table-blown-up-to-{target}-rows:{}", mutate::generic(&name)), bytes: v.clone() });
            // the same with the one-byte query count set to what fits of the new row count
            if let Some(f) = seed.map.fields.iter().find(|f| f.name == "num_unique_queries") {
                v[f.off] = target.min(255) as u8;
                out.push(Mutant { class: format!("table-blown-up-to-{target}-rows+count:{}", mutate::generic(&name)), bytes: v });
            }
        }
    }
    out
}

/// single-query seeds: the FRI remainder is shortened / extended and its commitment (the last digest
/// of the commitments) recomputed, so that the edit survives the commitment check; the changed
/// commitment re-seeds the coin, so the nonce is scanned to re-align the drawn position with the
/// opened one - some of these inputs reach the remainder checks of the FRI verifier
pub fn recommitted(seed: &Seed, quick: bool) -> Vec<Mutant> {
    let mut out = Vec::new();
    let o = &seed.inst.options;
    if o.num_queries() != 1 || o.grinding_factor() != 0 {
        return out;
    }
    let ds = digest_size(seed.inst.hs);
    let field = |name: &str| seed.map.fields.iter().find(|f| f.name == name);
    let (Some(cm), Some(nonce)) = (field("commitments"), field("pow_nonce")) else { return out };
    let (a, b) = seed.map.fri_remainder;
    let rem = &seed.bytes[a..b];
    let base = field("context.field_modulus").map(|f| f.len).unwrap_or(0);
    let elem = base * o.field_extension().degree() as usize;
    if elem == 0 || rem.len() % elem != 0 || cm.len < ds {
        return out;
    }
    let n = rem.len() / elem;
    let mut variants: Vec<(String, Vec<u8>)> = Vec::new();
    for keep in [1usize, n / 2, n.saturating_sub(1)] {
        if keep >= 1 && keep < n {
            variants.push((format!("shortened-to-{}", if keep == 1 { "1".to_string() } else if keep == n / 2 { "half".to_string() } else { "n-1".to_string() }), rem[..keep * elem].to_vec()));
        }
    }
    let mut ext1 = rem.to_vec();
    ext1.extend(vec![0u8; elem]);
    variants.push(("extended-by-zero-coefficient".into(), ext1));
    let mut dbl = rem.to_vec();
    dbl.extend(vec![0u8; rem.len()]);
    variants.push(("doubled-with-zero-coefficients".into(), dbl));
    variants.sort();
    variants.dedup();
    for (what, nr) in variants {
        let Some(digest) = stark::remainder_commitment(seed.inst.fd, seed.inst.hs, o.field_extension(), &nr) else { continue };
        if digest.len() != ds || nr.len() > u16::MAX as usize {
            continue;
        }
        let mut v = seed.bytes.clone();
        // remainder and its u16 length prefix (the remainder follows the commitments in the layout)
        v.splice(a..b, nr.iter().copied());
        v[a - 2..a].copy_from_slice(&(nr.len() as u16).to_le_bytes());
        let ce = cm.off + cm.len;
        v[ce - ds..ce].copy_from_slice(&digest);
        let shift = nr.len() as isize - (b - a) as isize;
        let noff = (nonce.off as isize + shift) as usize;
        for k in 0..if quick { 96u64 } else { 1024 } {
            let mut w = v.clone();
            w[noff..noff + 8].copy_from_slice(&k.to_le_bytes());
            out.push(Mutant { class: format!("remainder-{what}-recommitted+nonce-scan"), bytes: w });
        }
    }
    out
}
