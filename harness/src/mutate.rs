//! Proof mutation engine: a parser of the proof wire layout that locates every scalar, every
//! length prefix and every length-prefixed component, and generators of raw, structured and
//! semantic mutants.
use crate::prng::Rng;

#[derive(Clone, Debug, PartialEq)]
pub enum Kind {
    /// plain scalar of `len` bytes (little endian)
    Scalar,
    /// length / count prefix of `len` bytes covering the byte range `body`
    Len { body: (usize, usize) },
    /// opaque payload
    Blob,
}

#[derive(Clone, Debug)]
pub struct Field {
    pub name: String,
    pub off: usize,
    pub len: usize,
    pub kind: Kind,
}

#[derive(Clone, Debug, Default)]
pub struct ProofMap {
    pub fields: Vec<Field>,
    pub total: usize,
    /// (values range, paths range) of every FRI layer, in order
    pub fri_layers: Vec<(usize, usize)>,
    /// byte range of each whole FRI layer record
    pub fri_layer_records: Vec<(usize, usize)>,
    pub fri_remainder: (usize, usize),
    pub queries: Vec<(usize, usize)>,
    pub num_segments: usize,
}

struct Cur<'a> {
    b: &'a [u8],
    p: usize,
    f: Vec<Field>,
}
impl<'a> Cur<'a> {
    fn scalar(&mut self, name: &str, n: usize) -> Option<u64> {
        let s = self.b.get(self.p..self.p + n)?;
        let mut v = [0u8; 8];
        v[..n.min(8)].copy_from_slice(&s[..n.min(8)]);
        self.f.push(Field { name: name.to_string(), off: self.p, len: n, kind: Kind::Scalar });
        self.p += n;
        Some(u64::from_le_bytes(v))
    }
    /// length prefix of `n` bytes followed by that many payload bytes
    fn prefixed(&mut self, name: &str, n: usize) -> Option<(usize, usize)> {
        let s = self.b.get(self.p..self.p + n)?;
        let mut v = [0u8; 8];
        v[..n].copy_from_slice(s);
        let l = u64::from_le_bytes(v) as usize;
        let body = (self.p + n, self.p + n + l);
        self.b.get(body.0..body.1)?;
        self.f.push(Field { name: format!("{name}.len"), off: self.p, len: n, kind: Kind::Len { body } });
        self.f.push(Field { name: name.to_string(), off: body.0, len: l, kind: Kind::Blob });
        self.p = body.1;
        Some(body)
    }
    /// Merkle node vectors inside a paths blob: u8 count, (u8 n, n digests)*
    fn paths(&mut self, name: &str, body: (usize, usize), digest: usize) {
        let mut p = body.0;
        if p >= body.1 {
            return;
        }
        self.f.push(Field { name: format!("{name}.num_node_vectors"), off: p, len: 1, kind: Kind::Scalar });
        let nv = self.b[p] as usize;
        p += 1;
        for k in 0..nv {
            if p >= body.1 {
                return;
            }
            let nd = self.b[p] as usize;
            self.f.push(Field { name: format!("{name}.vector{k}.num_digests"), off: p, len: 1, kind: Kind::Scalar });
            p += 1 + nd * digest;
        }
    }
}

/// parses the wire layout of a serialized proof; `digest` is the serialized digest size
pub fn map_proof(bytes: &[u8], digest: usize) -> Option<ProofMap> {
    let mut c = Cur { b: bytes, p: 0, f: Vec::new() };
    let mut m = ProofMap::default();
    c.scalar("context.trace_info.main_width", 1)?;
    let aux_w = c.scalar("context.trace_info.aux_width", 1)?;
    c.scalar("context.trace_info.aux_rands", 1)?;
    c.scalar("context.trace_info.log_length", 1)?;
    c.prefixed("context.trace_info.meta", 2)?;
    c.prefixed("context.field_modulus", 1)?;
    for n in ["num_queries", "blowup", "grinding", "extension", "fri_folding", "fri_remainder_max_degree"] {
        c.scalar(&format!("context.options.{n}"), 1)?;
    }
    c.scalar("num_unique_queries", 1)?;
    c.prefixed("commitments", 2)?;
    m.num_segments = if aux_w > 0 { 2 } else { 1 };
    for s in 0..m.num_segments + 1 {
        let name = if s < m.num_segments { format!("trace_queries{s}") } else { "constraint_queries".to_string() };
        let start = c.p;
        c.prefixed(&format!("{name}.values"), 4)?;
        let pb = c.prefixed(&format!("{name}.paths"), 4)?;
        c.paths(&format!("{name}.paths"), pb, digest);
        m.queries.push((start, c.p));
    }
    c.prefixed("ood.trace_states", 2)?;
    c.prefixed("ood.lagrange_states", 2)?;
    c.prefixed("ood.evaluations", 2)?;
    let nl = c.scalar("fri.num_layers", 1)? as usize;
    for k in 0..nl {
        let start = c.p;
        let v = c.prefixed(&format!("fri.layer{k}.values"), 4)?;
        let pb = c.prefixed(&format!("fri.layer{k}.paths"), 4)?;
        c.paths(&format!("fri.layer{k}.paths"), pb, digest);
        m.fri_layers.push((v.0, pb.0));
        m.fri_layer_records.push((start, c.p));
    }
    m.fri_remainder = c.prefixed("fri.remainder", 2)?;
    c.scalar("fri.num_partitions_log2", 1)?;
    c.scalar("pow_nonce", 8)?;
    let flag = c.scalar("gkr_proof.flag", 1)?;
    if flag == 1 {
        // vint length
        let first = *c.b.get(c.p)?;
        let l = first.trailing_zeros() as usize + 1;
        if l <= 8 {
            let mut v = [0u8; 8];
            v[..l].copy_from_slice(c.b.get(c.p..c.p + l)?);
            let n = (u64::from_le_bytes(v) >> l) as usize;
            c.f.push(Field { name: "gkr_proof.len".into(), off: c.p, len: l, kind: Kind::Len { body: (c.p + l, c.p + l + n) } });
            c.p += l;
            c.f.push(Field { name: "gkr_proof".into(), off: c.p, len: n, kind: Kind::Blob });
            c.p += n;
        }
    }
    if c.p != bytes.len() {
        return None;
    }
    m.total = bytes.len();
    m.fields = c.f;
    Some(m)
}

#[derive(Clone, Debug)]
pub struct Mutant {
    pub class: String,
    pub bytes: Vec<u8>,
}

fn put(b: &mut [u8], off: usize, len: usize, v: u64) {
    let le = v.to_le_bytes();
    b[off..off + len].copy_from_slice(&le[..len]);
}
fn get(b: &[u8], off: usize, len: usize) -> u64 {
    let mut v = [0u8; 8];
    v[..len.min(8)].copy_from_slice(&b[off..off + len.min(8)]);
    u64::from_le_bytes(v)
}

/// fixes up the length prefixes that cover `at` after `delta` bytes were inserted/removed there
fn fix_lengths(map: &ProofMap, out: &mut [u8], at: usize, delta: isize) {
    for f in &map.fields {
        if let Kind::Len { body } = &f.kind {
            if body.0 <= at && at <= body.1 && f.name != "gkr_proof.len" {
                let old = get(out, f.off, f.len) as isize;
                put(out, f.off, f.len, (old + delta).max(0) as u64);
            }
        }
    }
}

/// structured mutants: every scalar and length field x boundary values; consistent growth and
/// shrinkage of every blob; FRI layer and query record surgery
pub fn structured(orig: &[u8], map: &ProofMap, rng: &mut Rng, digest: usize) -> Vec<Mutant> {
    let mut out = Vec::new();
    for f in &map.fields {
        match &f.kind {
            Kind::Scalar | Kind::Len { .. } => {
                let max = if f.len >= 8 { u64::MAX } else { (1u64 << (8 * f.len)) - 1 };
                let cur = get(orig, f.off, f.len);
                let mut vals = vec![0, 1, max - 1, max, cur.wrapping_add(1) & max, cur.wrapping_sub(1) & max, rng.u64() & max, cur ^ 0x80, cur.wrapping_mul(2) & max, max / 2, max / 2 + 1];
                if f.len == 1 {
                    vals.extend_from_slice(&[2, 3, 4, 7, 8, 16, 31, 32, 33, 63, 64, 65, 127, 128, 129, 200, 254]);
                }
                vals.sort();
                vals.dedup();
                for v in vals {
                    if v != cur {
                        let mut b = orig.to_vec();
                        put(&mut b, f.off, f.len, v);
                        let kind = if matches!(f.kind, Kind::Scalar) { "scalar" } else { "length" };
                        out.push(Mutant { class: format!("{kind}:{}", generic(&f.name)), bytes: b });
                    }
                }
            },
            Kind::Blob => {
                // grow / shrink consistently (all enclosing length prefixes fixed up)
                for (what, n) in [("grow1", 1isize), ("grow-digest", digest as isize), ("shrink1", -1), ("shrink-digest", -(digest as isize))] {
                    let end = f.off + f.len;
                    let mut b = orig.to_vec();
                    if n > 0 {
                        let ins: Vec<u8> = rng.bytes(n as usize);
                        b.splice(end..end, ins);
                    } else {
                        if f.len < (-n) as usize {
                            continue;
                        }
                        b.drain(end - (-n) as usize..end);
                    }
                    fix_lengths(map, &mut b, f.off, n);
                    out.push(Mutant { class: format!("blob-{what}:{}", generic(&f.name)), bytes: b });
                }
                // a random byte inside
                if f.len > 0 {
                    let mut b = orig.to_vec();
                    let k = f.off + rng.usize(f.len);
                    b[k] ^= 1 << rng.usize(8);
                    out.push(Mutant { class: format!("blob-bitflip:{}", generic(&f.name)), bytes: b });
                }
                // emptied, with the prefix fixed
                if f.len > 0 {
                    let mut b = orig.to_vec();
                    b.drain(f.off..f.off + f.len);
                    fix_lengths(map, &mut b, f.off, -(f.len as isize));
                    out.push(Mutant { class: format!("blob-emptied:{}", generic(&f.name)), bytes: b });
                }
            },
        }
    }
    // element-granular edits: blobs grown by a zero byte, grown / shrunk by one field element
    let field = |name: &str| map.fields.iter().find(|f| f.name == name);
    let base_bytes = field("context.field_modulus").map(|f| f.len).unwrap_or(0);
    let ext = field("context.options.extension").map(|f| orig[f.off] as usize).unwrap_or(1).clamp(1, 3);
    let elem = base_bytes * ext;
    if elem > 0 {
        for f in map.fields.iter().filter(|f| f.kind == Kind::Blob) {
            let end = f.off + f.len;
            let mut b = orig.to_vec();
            b.insert(end, 0);
            fix_lengths(map, &mut b, f.off, 1);
            out.push(Mutant { class: format!("blob-grow-zero-byte:{}", generic(&f.name)), bytes: b });
            // one more element: a copy of the blob's last element (canonical by construction) or zeros
            for zero in [false, true] {
                let ins = if !zero && f.len >= elem { orig[end - elem..end].to_vec() } else { vec![0u8; elem] };
                let mut b = orig.to_vec();
                b.splice(end..end, ins);
                fix_lengths(map, &mut b, f.off, elem as isize);
                out.push(Mutant { class: format!("blob-grow-element:{}", generic(&f.name)), bytes: b });
            }
            if f.len >= elem {
                let mut b = orig.to_vec();
                b.drain(end - elem..end);
                fix_lengths(map, &mut b, f.off, -(elem as isize));
                out.push(Mutant { class: format!("blob-shrink-element:{}", generic(&f.name)), bytes: b });
            }
        }
        // field elements overwritten by non-canonical / boundary encodings: all ones, all ones but the
        // lowest bit, the modulus itself, modulus + 1, modulus - 1, 2^(8k-1) - style values
        if let Some(mf) = field("context.field_modulus") {
            let modulus = orig[mf.off..mf.off + mf.len].to_vec();
            let add_small = |v: &[u8], d: i16| -> Vec<u8> {
                let mut out = v.to_vec();
                let mut carry = d;
                for b in out.iter_mut() {
                    let t = *b as i16 + carry;
                    *b = t.rem_euclid(256) as u8;
                    carry = t.div_euclid(256);
                    if carry == 0 {
                        break;
                    }
                }
                out
            };
            let mut pats: Vec<(&str, Vec<u8>)> = vec![
                ("all-ones", vec![0xFF; base_bytes]),
                ("all-ones-but-lowest-bit", std::iter::once(0xFEu8).chain(std::iter::repeat(0xFF).take(base_bytes - 1)).collect()),
                ("modulus", modulus.clone()),
                ("modulus+1", add_small(&modulus, 1)),
                ("modulus-1", add_small(&modulus, -1)),
                ("modulus+2^40", {
                    let mut m = modulus.clone();
                    if m.len() > 5 {
                        m[5] = m[5].wrapping_add(1);
                    }
                    m
                }),
            ];
            let mut top = vec![0u8; base_bytes];
            top[base_bytes - 1] = 0x80;
            pats.push(("top-bit-only", top));
            for f in map.fields.iter().filter(|f| f.kind == Kind::Blob && f.len >= elem && (f.name.starts_with("ood.") || f.name.ends_with(".values") || f.name == "fri.remainder")) {
                // element-aligned start of the payload (OOD blobs carry a leading frame-size byte)
                let lead = f.len % elem;
                let n_el = (f.len - lead) / elem;
                if n_el == 0 {
                    continue;
                }
                for which in [0usize, n_el - 1, rng.usize(n_el)] {
                    // first and last base coefficient of the chosen element
                    for coeff in [0usize, ext - 1] {
                        let at = f.off + lead + which * elem + coeff * base_bytes;
                        for (pn, pat) in &pats {
                            if orig[at..at + base_bytes] == pat[..] {
                                continue;
                            }
                            let mut b = orig.to_vec();
                            b[at..at + base_bytes].copy_from_slice(pat);
                            out.push(Mutant { class: format!("element-overwritten({pn}):{}", generic(&f.name)), bytes: b });
                        }
                    }
                }
            }
        }
        // whole rows added to / removed from the opened tables: query sets hold num_unique_queries
        // rows, FRI layers rows of folding-factor elements
        let nuq = field("num_unique_queries").map(|f| orig[f.off] as usize).unwrap_or(0);
        let folding = field("context.options.fri_folding").map(|f| orig[f.off] as usize).unwrap_or(0);
        for f in map.fields.iter().filter(|f| f.kind == Kind::Blob && f.name.ends_with(".values")) {
            let row = if f.name.starts_with("fri.") { folding * elem } else if nuq > 0 && f.len % nuq == 0 { f.len / nuq } else { 0 };
            if row == 0 || f.len < row {
                continue;
            }
            let end = f.off + f.len;
            // duplicate the last row / the first row at the end
            for (what, src) in [("last", end - row), ("first", f.off)] {
                let mut b = orig.to_vec();
                b.splice(end..end, orig[src..src + row].to_vec());
                fix_lengths(map, &mut b, f.off, row as isize);
                out.push(Mutant { class: format!("table-row-added({what} row repeated):{}", generic(&f.name)), bytes: b });
            }
            let mut b = orig.to_vec();
            b.drain(end - row..end);
            fix_lengths(map, &mut b, f.off, -(row as isize));
            out.push(Mutant { class: format!("table-row-removed:{}", generic(&f.name)), bytes: b });
            // two rows exchanged (content reordered, sizes unchanged)
            if f.len >= 2 * row && orig[f.off..f.off + row] != orig[end - row..end] {
                let mut b = orig.to_vec();
                let first = orig[f.off..f.off + row].to_vec();
                let last = orig[end - row..end].to_vec();
                b[f.off..f.off + row].copy_from_slice(&last);
                b[end - row..end].copy_from_slice(&first);
                out.push(Mutant { class: format!("table-rows-exchanged:{}", generic(&f.name)), bytes: b });
            }
        }
        // coordinated edits: one row added to (removed from) every opened trace / constraint table at
        // once, with and without the matching change of num_unique_queries
        if let Some(nf) = field("num_unique_queries") {
            let mut tables: Vec<&Field> = map.fields.iter().filter(|f| f.kind == Kind::Blob && f.name.ends_with(".values") && !f.name.starts_with("fri.")).collect();
            tables.sort_by(|a, b| b.off.cmp(&a.off));
            if nuq > 0 && tables.iter().all(|f| f.len > 0 && f.len % nuq == 0) {
                for (what, add) in [("added", true), ("removed", false)] {
                    for bump in [true, false] {
                        for include_constraints in [true, false] {
                            let mut b = orig.to_vec();
                            for f in &tables {
                                if !include_constraints && f.name.starts_with("constraint") {
                                    continue;
                                }
                                let row = f.len / nuq;
                                let end = f.off + f.len;
                                if add {
                                    b.splice(end..end, orig[end - row..end].to_vec());
                                    fix_lengths(map, &mut b, f.off, row as isize);
                                } else if nuq > 1 {
                                    b.drain(end - row..end);
                                    fix_lengths(map, &mut b, f.off, -(row as isize));
                                }
                            }
                            if bump {
                                b[nf.off] = if add { b[nf.off].wrapping_add(1) } else { b[nf.off].wrapping_sub(1) };
                            }
                            out.push(Mutant {
                                class: format!("row-{what}-in-{}-tables({})", if include_constraints { "all" } else { "all-trace" }, if bump { "num_unique_queries adjusted" } else { "num_unique_queries kept" }),
                                bytes: b,
                            });
                        }
                    }
                }
            }
        }
        // out-of-domain trace frame re-encoded with another frame size (1, 3, 4 rows per column), the
        // element count kept consistent with the frame-size byte; one column added / removed
        if let Some(f) = field("ood.trace_states") {
            if f.len > 1 && (f.len - 1) % (2 * elem) == 0 {
                let cols = (f.len - 1) / (2 * elem);
                let body = &orig[f.off + 1..f.off + f.len];
                for k in [1usize, 3, 4] {
                    let mut nb = vec![k as u8];
                    for c in 0..cols {
                        let pair = &body[c * 2 * elem..(c + 1) * 2 * elem];
                        if k == 1 {
                            nb.extend_from_slice(&pair[..elem]);
                        } else {
                            nb.extend_from_slice(pair);
                            for _ in 2..k {
                                nb.extend_from_slice(&pair[..elem]);
                            }
                        }
                    }
                    let mut b = orig.to_vec();
                    let delta = nb.len() as isize - f.len as isize;
                    b.splice(f.off..f.off + f.len, nb);
                    fix_lengths(map, &mut b, f.off, delta);
                    out.push(Mutant { class: format!("ood-frame-size-{k}-with-consistent-element-count"), bytes: b });
                }
                // same frame size, one column more / fewer
                let mut b = orig.to_vec();
                let end = f.off + f.len;
                b.splice(end..end, body[..2 * elem].to_vec());
                fix_lengths(map, &mut b, f.off, 2 * elem as isize);
                out.push(Mutant { class: "ood-frame-column-added".into(), bytes: b });
                if cols > 1 {
                    let mut b = orig.to_vec();
                    b.drain(end - 2 * elem..end);
                    fix_lengths(map, &mut b, f.off, -(2 * elem as isize));
                    out.push(Mutant { class: "ood-frame-column-removed".into(), bytes: b });
                }
            }
        }
        // Lagrange kernel frame: injected where the proof has none, resized where it has one
        if let (Some(l), Some(t)) = (field("ood.lagrange_states"), field("ood.trace_states")) {
            if l.len >= 1 && t.len > elem {
                let sample = orig[t.off + 1..t.off + 1 + elem].to_vec();
                let cur = orig[l.off] as usize;
                let sizes: Vec<usize> = if cur == 0 { vec![1, 2, 4, 9] } else { vec![0, cur - 1, cur + 1] };
                for k in sizes {
                    let mut nb = vec![k as u8];
                    for j in 0..k {
                        if cur > 0 && j < cur {
                            nb.extend_from_slice(&orig[l.off + 1 + j * elem..l.off + 1 + (j + 1) * elem]);
                        } else {
                            nb.extend_from_slice(&sample);
                        }
                    }
                    let mut b = orig.to_vec();
                    let delta = nb.len() as isize - l.len as isize;
                    b.splice(l.off..l.off + l.len, nb);
                    fix_lengths(map, &mut b, l.off, delta);
                    out.push(Mutant { class: format!("ood-lagrange-frame-{}", if cur == 0 { "injected" } else { "resized" }), bytes: b });
                }
            }
        }
    }
    // FRI layer surgery: remove / duplicate / swap whole layer records, with the count fixed or not
    let nl_off = map.fields.iter().find(|f| f.name == "fri.num_layers").map(|f| f.off);
    if let Some(nl_off) = nl_off {
        for (k, r) in map.fri_layer_records.iter().enumerate() {
            for fix in [true, false] {
                let mut b = orig.to_vec();
                b.drain(r.0..r.1);
                if fix {
                    b[nl_off] = b[nl_off].wrapping_sub(1);
                }
                out.push(Mutant { class: format!("fri-layer-removed(count {})", if fix { "fixed" } else { "kept" }), bytes: b });
                let mut b = orig.to_vec();
                let rec = orig[r.0..r.1].to_vec();
                b.splice(r.1..r.1, rec);
                if fix {
                    b[nl_off] = b[nl_off].wrapping_add(1);
                }
                out.push(Mutant { class: format!("fri-layer-duplicated(count {})", if fix { "fixed" } else { "kept" }), bytes: b });
            }
            if k + 1 < map.fri_layer_records.len() {
                let n = map.fri_layer_records[k + 1];
                let mut b = orig[..r.0].to_vec();
                b.extend_from_slice(&orig[n.0..n.1]);
                b.extend_from_slice(&orig[r.0..r.1]);
                b.extend_from_slice(&orig[n.1..]);
                out.push(Mutant { class: "fri-layers-swapped".into(), bytes: b });
            }
        }
    }
    // Merkle openings replaced by minimal well-formed encodings: no node vector at all, one empty
    // vector, as many vectors as before but all empty, one vector holding a single digest
    for f in map.fields.iter().filter(|f| f.kind == Kind::Blob && f.name.ends_with(".paths") && f.len > 0) {
        let nv = orig[f.off] as usize;
        let mut one = vec![1u8, 1];
        one.extend(rng.bytes(digest));
        for (what, nb) in [("no-node-vectors", vec![0u8]), ("one-empty-vector", vec![1u8, 0]), ("all-vectors-empty", std::iter::once(nv as u8).chain(std::iter::repeat(0u8).take(nv)).collect::<Vec<u8>>()), ("one-vector-one-digest", one)] {
            if nb == orig[f.off..f.off + f.len] {
                continue;
            }
            let mut b = orig.to_vec();
            let delta = nb.len() as isize - f.len as isize;
            b.splice(f.off..f.off + f.len, nb);
            fix_lengths(map, &mut b, f.off, delta);
            out.push(Mutant { class: format!("merkle-paths-replaced({what}):{}", generic(&f.name)), bytes: b });
        }
    }
    // coordinated FRI surgery: a layer removed / duplicated together with its commitment
    if let (Some(nl_off), Some(cm)) = (nl_off, map.fields.iter().find(|f| f.name == "commitments")) {
        for (k, r) in map.fri_layer_records.iter().enumerate() {
            let d0 = cm.off + (map.num_segments + 1 + k) * digest;
            if d0 + digest > cm.off + cm.len || r.0 < cm.off + cm.len {
                continue;
            }
            // the layer records follow the commitments in the layout: edit the records first
            let mut b = orig.to_vec();
            b.drain(r.0..r.1);
            b[nl_off] = b[nl_off].wrapping_sub(1);
            b.drain(d0..d0 + digest);
            fix_lengths(map, &mut b, cm.off, -(digest as isize));
            out.push(Mutant { class: "fri-layer-and-its-commitment-removed".into(), bytes: b });
            let mut b = orig.to_vec();
            b.splice(r.1..r.1, orig[r.0..r.1].to_vec());
            b[nl_off] = b[nl_off].wrapping_add(1);
            b.splice(d0..d0, orig[d0..d0 + digest].to_vec());
            fix_lengths(map, &mut b, cm.off, digest as isize);
            out.push(Mutant { class: "fri-layer-and-its-commitment-duplicated".into(), bytes: b });
        }
    }
    // query record surgery: swap the records of two query sets
    for a in 0..map.queries.len() {
        for bq in a + 1..map.queries.len() {
            let (ra, rb) = (map.queries[a], map.queries[bq]);
            let mut b = orig[..ra.0].to_vec();
            b.extend_from_slice(&orig[rb.0..rb.1]);
            b.extend_from_slice(&orig[ra.1..rb.0]);
            b.extend_from_slice(&orig[ra.0..ra.1]);
            b.extend_from_slice(&orig[rb.1..]);
            out.push(Mutant { class: "query-records-swapped".into(), bytes: b });
        }
    }
    // Merkle node vectors: one extra digest inside a vector (counts and lengths fixed up)
    for f in map.fields.iter().filter(|f| f.name.ends_with(".num_digests")) {
        let nd = orig[f.off] as usize;
        let end = f.off + 1 + nd * digest;
        let mut b = orig.to_vec();
        b.splice(end..end, rng.bytes(digest));
        b[f.off] = b[f.off].wrapping_add(1);
        fix_lengths(map, &mut b, f.off, digest as isize);
        out.push(Mutant { class: "merkle-extra-node-in-vector".into(), bytes: b });
        if nd > 0 {
            let mut b = orig.to_vec();
            b.drain(end - digest..end);
            b[f.off] -= 1;
            fix_lengths(map, &mut b, f.off, -(digest as isize));
            out.push(Mutant { class: "merkle-node-removed-from-vector".into(), bytes: b });
        }
    }
    // trailing garbage and prefixes
    for n in [1usize, 2, 8, 33] {
        let mut b = orig.to_vec();
        b.extend(rng.bytes(n));
        out.push(Mutant { class: "trailing-garbage".into(), bytes: b });
    }
    out
}

/// second-generation mutants: structured edits applied to structured mutants that still have a
/// well-formed wire layout (pairs of edits; `budget` of them, sampled)
pub fn second_generation(first: &[Mutant], rng: &mut Rng, digest: usize, budget: usize) -> Vec<Mutant> {
    let mut out = Vec::new();
    if first.is_empty() {
        return out;
    }
    let mut tries = 0;
    while out.len() < budget && tries < budget * 4 {
        tries += 1;
        let m = &first[rng.usize(first.len())];
        let Some(map) = map_proof(&m.bytes, digest) else { continue };
        // the first edit may have made counts and sizes inconsistent with each other: a structured
        // edit that cannot be carried out on such bytes is skipped
        let second = match std::panic::catch_unwind(std::panic::AssertUnwindSafe(|| structured(&m.bytes, &map, rng, digest))) {
            Ok(v) => v,
            Err(_) => continue,
        };
        if second.is_empty() {
            continue;
        }
        for _ in 0..4.min(budget - out.len()) {
            let s2 = &second[rng.usize(second.len())];
            out.push(Mutant { class: format!("pair:{}+{}", m.class.split(':').next().unwrap_or(""), s2.class.split(':').next().unwrap_or("")), bytes: s2.bytes.clone() });
        }
    }
    out
}

/// strips indexes so that mutation classes aggregate: "fri.layer3.values" -> "fri.layer#.values"
pub fn generic(name: &str) -> String {
    let mut out = String::new();
    let mut last = false;
    for c in name.chars() {
        if c.is_ascii_digit() {
            if !last {
                out.push('#');
            }
            last = true;
        } else {
            last = false;
            out.push(c);
        }
    }
    out
}

/// byte-level mutants at one offset
pub fn byte_values(orig: u8) -> Vec<u8> {
    let mut v = vec![0u8, 1, 0x7f, 0x80, 0xfe, 0xff, !orig, orig.wrapping_add(1)];
    v.retain(|x| *x != orig);
    v.sort();
    v.dedup();
    v
}

/// the field a byte offset belongs to (for reporting)
pub fn field_at(map: &ProofMap, off: usize) -> String {
    map.fields.iter().filter(|f| f.off <= off && off < f.off + f.len.max(1)).map(|f| generic(&f.name)).last().unwrap_or_else(|| "?".into())
}
