//! xoshiro256** with splitmix64 seeding; every case derives its own generator from
//! (VERIF_SEED, property, case index) so a single case replays in isolation.

#[derive(Clone)]
pub struct Rng {
    s: [u64; 4],
}

pub fn splitmix(x: &mut u64) -> u64 {
    *x = x.wrapping_add(0x9E3779B97F4A7C15);
    let mut z = *x;
    z = (z ^ (z >> 30)).wrapping_mul(0xBF58476D1CE4E5B9);
    z = (z ^ (z >> 27)).wrapping_mul(0x94D049BB133111EB);
    z ^ (z >> 31)
}

pub fn fnv(bytes: &[u8]) -> u64 {
    let mut h = 0xcbf29ce484222325u64;
    for b in bytes {
        h ^= *b as u64;
        h = h.wrapping_mul(0x100000001b3);
    }
    h
}

impl Rng {
    pub fn new(seed: u64) -> Self {
        let mut x = seed;
        let s = [splitmix(&mut x), splitmix(&mut x), splitmix(&mut x), splitmix(&mut x)];
        Rng { s }
    }
    pub fn derive(seed: u64, tag: &str, idx: u64) -> Self {
        let mut x = seed ^ fnv(tag.as_bytes()).rotate_left(17) ^ idx.wrapping_mul(0xD6E8FEB86659FD93);
        let a = splitmix(&mut x);
        Rng::new(a ^ idx)
    }
    #[inline]
    pub fn u64(&mut self) -> u64 {
        let r = self.s[1].wrapping_mul(5).rotate_left(7).wrapping_mul(9);
        let t = self.s[1] << 17;
        self.s[2] ^= self.s[0];
        self.s[3] ^= self.s[1];
        self.s[1] ^= self.s[2];
        self.s[0] ^= self.s[3];
        self.s[2] ^= t;
        self.s[3] = self.s[3].rotate_left(45);
        r
    }
    pub fn u128(&mut self) -> u128 {
        ((self.u64() as u128) << 64) | self.u64() as u128
    }
    pub fn u32(&mut self) -> u32 {
        (self.u64() >> 32) as u32
    }
    /// uniform in 0..n (n > 0)
    pub fn below(&mut self, n: u64) -> u64 {
        debug_assert!(n > 0);
        ((self.u64() as u128 * n as u128) >> 64) as u64
    }
    pub fn usize(&mut self, n: usize) -> usize {
        self.below(n as u64) as usize
    }
    /// uniform in lo..=hi
    pub fn range(&mut self, lo: usize, hi: usize) -> usize {
        lo + self.usize(hi - lo + 1)
    }
    pub fn bool(&mut self) -> bool {
        self.u64() & 1 == 1
    }
    /// true with probability num/den
    pub fn chance(&mut self, num: u64, den: u64) -> bool {
        self.below(den) < num
    }
    pub fn pick<'a, T>(&mut self, v: &'a [T]) -> &'a T {
        &v[self.usize(v.len())]
    }
    pub fn bytes(&mut self, n: usize) -> Vec<u8> {
        let mut v = Vec::with_capacity(n);
        while v.len() < n {
            let x = self.u64().to_le_bytes();
            let k = (n - v.len()).min(8);
            v.extend_from_slice(&x[..k]);
        }
        v
    }
    pub fn shuffle<T>(&mut self, v: &mut [T]) {
        for i in (1..v.len()).rev() {
            let j = self.usize(i + 1);
            v.swap(i, j);
        }
    }
}
